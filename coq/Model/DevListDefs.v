(* Executable model of src/N2kDeviceList.cpp / N2kDeviceList.h (class tN2kDeviceList, tInternalDevice) together with the parts of
   ParseN2kPGN126996 / ParseN2kPGN126998 (NMEA2000.cpp) it depends on.  Definitions only - proofs live in Proofs/DevListProofs.v.

   Memory.  Every tInternalDevice the list creates is an object of a heap [heap : list (option entry)]: the object id is the index,
   [new] appends, [delete] turns the cell into None (= freed) and ids are never reused.  Sources[N2kMaxBusDevices] is a list of 254
   optional object ids.  Every access goes through a checked accessor: dereferencing a freed or unknown id, deleting twice and indexing
   Sources[] outside 0..253 are OOB - exactly the accesses ASan reports on the C++ side (heap-use-after-free / overflow).
   The buffers owned by an entry (ConfI with the three field pointers into it, TransmitPGNs, ReceivePGNs) are lists with checked writes;
   a field pointer is an offset into ConfI.  They are released with the entry (no path frees them while a pointer survives: the code
   recomputes the field pointers whenever it reallocates), so they are kept inside the entry.

   Numbers.  N2kMillis() is the 32-bit clock value [now] (an input of every message; the stored times are only compared through
   N2kHasElapsed in uint32_t, so the width of unsigned long does not matter), uint8_t/uint16_t
   members are written with their wrap where a wrap is reachable.  Text: a char* getter result is the C string it points to (bytes
   before the first NUL).  The fixed product information strings are given functionally (what GetStr(33,buf,32,0xff) leaves as C string:
   the 32 payload bytes cut at the first 0x00/0xFF); the variable strings of the configuration information go through the byte-level
   model of tN2kMsg::GetVarStr in Model/TextDefs.v, writing into (slices of) the ConfI buffer.

   The model follows the code WITH the repairs of C18 (see tools/p_C18.py for the witnesses):
     - HandleIsoAddressClaim does not treat the placeholder itself as "the same device on another address" (NAME 0 claim; use after free)
     - HandleConfigurationInformation measures the strings through a scratch buffer (GetVarStr reports no size for a null buffer) and
       InitConfigurationInformation recomputes the field pointers also when it re-uses the buffer
     - ParseN2kPGN126996 refuses payloads shorter than the 134 bytes of product information
     - the constructor of tInternalDevice initialises LastMessageTime (it was read uninitialised for a placeholder entry).
     - the three ReadyForRequest... tests decide "never requested" by the request counter and test every elapsed time with N2kHasElapsed
       on the 32-bit values (D-20 of C13: with the time value 0 as "never" and a subtraction in unsigned long the pacing depended on
       the clock origin and on the width of unsigned long); pacing_shift in Proofs/DevListProofs.v states the independence.
   Modelled as it is, not repaired: a device displaced from its address is parked in the first free slot of Sources[] as if it had that
   address (known finding "parked-device" of C18). *)
From Coq Require Import ZArith List Bool.
From N2kV Require Import Base.Res Base.ListAux Model.TextDefs.
Import ListNotations ResNotations.
Local Open Scope Z_scope.

Definition MaxBus : Z := 254.                       (* N2kMaxBusDevices *)
Definition two32 : Z := 4294967296.
Definition two64 : Z := 18446744073709551616.
Definition int32max : Z := 2147483647.
Definition PGN_claim : Z := 60928.
Definition PGN_prod : Z := 126996.
Definition PGN_conf : Z := 126998.
Definition PGN_list : Z := 126464.

(* ---------- messages ---------- *)
Record bmsg := { b_pgn : Z; b_src : Z; b_data : list Z }.
Definition pl (m:bmsg) : list Z := map (fun b => b mod 256) (firstn 223 (b_data m)).     (* Data[0..DataLen-1] (unsigned char), DataLen <= 223 *)
Definition dlen (m:bmsg) : Z := Z.of_nat (length (pl m)).
Definition tmsg (m:bmsg) : msg := {| mdata := pl m ++ repeat 0 (223 - length (pl m)); mlen := dlen m |}.

Fixpoint le_num (l:list Z) : Z := match l with [] => 0 | b :: r => b + 256 * le_num r end.
(* GetNByteUInt(Index, def): value and new Index *)
Definition get_num (d:list Z) (n:nat) (idx def:Z) : Z * Z :=
  if idx + Z.of_nat n <=? Z.of_nat (length d) then (le_num (firstn n (skipn (Z.to_nat idx) d)), idx + Z.of_nat n) else (def, idx).
Definition claim_name (m:bmsg) : Z := fst (get_num (pl m) 8 0 (two64 - 1)).     (* GetUInt64: N2kUInt64NA when shorter than 8 bytes *)

(* ---------- product information ---------- *)
Record prodinfo := { p_ver : Z; p_code : Z; p_mid : list Z; p_sw : list Z; p_mver : list Z; p_ser : list Z; p_cert : Z; p_load : Z }.
Definition pi_clear : prodinfo := {| p_ver := 0; p_code := 0; p_mid := []; p_sw := []; p_mver := []; p_ser := []; p_cert := 0; p_load := 0 |}.
Fixpoint cut (nul:Z) (l:list Z) : list Z :=
  match l with [] => [] | b :: r => if (b =? 0) || (b =? nul) then [] else b :: cut nul r end.
Definition fixstr (d:list Z) (idx:nat) : list Z := cut 255 (firstn 32 (skipn idx d)).
Definition PI_LEN : Z := 134.
(* ParseN2kPGN126996: the raw fields *)
Definition parse_pi (m:bmsg) : option prodinfo :=
  if dlen m <? PI_LEN then None else
  let d := pl m in
  Some {| p_ver := fst (get_num d 2 0 65535); p_code := fst (get_num d 2 2 65535);
          p_mid := fixstr d 4; p_sw := fixstr d 36; p_mver := fixstr d 68; p_ser := fixstr d 100;
          p_cert := znth d 132 255; p_load := znth d 133 255 |}.
(* tProductInformation::Set: "not available" numbers are replaced by defaults *)
Definition pi_norm (p:prodinfo) : prodinfo :=
  {| p_ver := if p_ver p =? 65535 then 2101 else p_ver p; p_code := p_code p; p_mid := p_mid p; p_sw := p_sw p; p_mver := p_mver p;
     p_ser := p_ser p; p_cert := if p_cert p =? 255 then 0 else p_cert p; p_load := if p_load p =? 255 then 1 else p_load p |}.
Fixpoint list_eqb (a b:list Z) : bool :=
  match a, b with [], [] => true | x :: a', y :: b' => (x =? y) && list_eqb a' b' | _, _ => false end.
Definition pi_same (a b:prodinfo) : bool :=           (* memcmp of the two structs; the char arrays are NUL padded on both sides *)
  (p_ver a =? p_ver b) && (p_code a =? p_code b) && list_eqb (p_mid a) (p_mid b) && list_eqb (p_sw a) (p_sw b) &&
  list_eqb (p_mver a) (p_mver b) && list_eqb (p_ser a) (p_ser b) && (p_cert a =? p_cert b) && (p_load a =? p_load b).

(* ---------- entries ---------- *)
Record entry := {
  e_name : Z; e_src : Z; e_ctime : Z;
  e_pil : bool; e_pi : prodinfo;
  e_cil : bool; e_confi : option (list Z); e_man : option Z; e_d1 : option Z; e_d2 : option Z;
  e_tx : option (list Z); e_rx : option (list Z);
  e_nname : Z; e_pireq : Z; e_npi : Z; e_cireq : Z; e_nci : Z; e_pgreq : Z; e_npg : Z; e_lmt : Z }.

Definition new_entry (name now:Z) : entry :=         (* tInternalDevice(_Name): Source 255, CreateTime = LastMessageTime = N2kMillis() *)
  {| e_name := name; e_src := 255; e_ctime := now; e_pil := false; e_pi := pi_clear; e_cil := false; e_confi := None;
     e_man := None; e_d1 := None; e_d2 := None; e_tx := None; e_rx := None;
     e_nname := 0; e_pireq := 0; e_npi := 0; e_cireq := 0; e_nci := 0; e_pgreq := 0; e_npg := 0; e_lmt := now |}.

Definition with_src (e:entry) (s:Z) : entry :=
  {| e_name := e_name e; e_src := s; e_ctime := e_ctime e; e_pil := e_pil e; e_pi := e_pi e; e_cil := e_cil e; e_confi := e_confi e;
     e_man := e_man e; e_d1 := e_d1 e; e_d2 := e_d2 e; e_tx := e_tx e; e_rx := e_rx e; e_nname := e_nname e; e_pireq := e_pireq e;
     e_npi := e_npi e; e_cireq := e_cireq e; e_nci := e_nci e; e_pgreq := e_pgreq e; e_npg := e_npg e; e_lmt := e_lmt e |}.
Definition with_name (e:entry) (n:Z) : entry :=
  {| e_name := n; e_src := e_src e; e_ctime := e_ctime e; e_pil := e_pil e; e_pi := e_pi e; e_cil := e_cil e; e_confi := e_confi e;
     e_man := e_man e; e_d1 := e_d1 e; e_d2 := e_d2 e; e_tx := e_tx e; e_rx := e_rx e; e_nname := e_nname e; e_pireq := e_pireq e;
     e_npi := e_npi e; e_cireq := e_cireq e; e_nci := e_nci e; e_pgreq := e_pgreq e; e_npg := e_npg e; e_lmt := e_lmt e |}.
(* ProdILoaded / ProdI / ProdIRequested / nProdIRequested *)
Definition with_pi (e:entry) (l:bool) (p:prodinfo) (rq n:Z) : entry :=
  {| e_name := e_name e; e_src := e_src e; e_ctime := e_ctime e; e_pil := l; e_pi := p; e_cil := e_cil e; e_confi := e_confi e;
     e_man := e_man e; e_d1 := e_d1 e; e_d2 := e_d2 e; e_tx := e_tx e; e_rx := e_rx e; e_nname := e_nname e; e_pireq := rq;
     e_npi := n; e_cireq := e_cireq e; e_nci := e_nci e; e_pgreq := e_pgreq e; e_npg := e_npg e; e_lmt := e_lmt e |}.
Definition with_conf (e:entry) (l:bool) (b:option (list Z)) (m d1 d2:option Z) : entry :=
  {| e_name := e_name e; e_src := e_src e; e_ctime := e_ctime e; e_pil := e_pil e; e_pi := e_pi e; e_cil := l; e_confi := b;
     e_man := m; e_d1 := d1; e_d2 := d2; e_tx := e_tx e; e_rx := e_rx e; e_nname := e_nname e; e_pireq := e_pireq e;
     e_npi := e_npi e; e_cireq := e_cireq e; e_nci := e_nci e; e_pgreq := e_pgreq e; e_npg := e_npg e; e_lmt := e_lmt e |}.
Definition with_lists (e:entry) (tx rx:option (list Z)) : entry :=
  {| e_name := e_name e; e_src := e_src e; e_ctime := e_ctime e; e_pil := e_pil e; e_pi := e_pi e; e_cil := e_cil e; e_confi := e_confi e;
     e_man := e_man e; e_d1 := e_d1 e; e_d2 := e_d2 e; e_tx := tx; e_rx := rx; e_nname := e_nname e; e_pireq := e_pireq e;
     e_npi := e_npi e; e_cireq := e_cireq e; e_nci := e_nci e; e_pgreq := e_pgreq e; e_npg := e_npg e; e_lmt := e_lmt e |}.
(* the request bookkeeping that is not product information: nNameRequested, ConfIRequested/n, PGNsRequested/n, LastMessageTime *)
Definition with_req (e:entry) (nn cr nc gr ng lm:Z) : entry :=
  {| e_name := e_name e; e_src := e_src e; e_ctime := e_ctime e; e_pil := e_pil e; e_pi := e_pi e; e_cil := e_cil e; e_confi := e_confi e;
     e_man := e_man e; e_d1 := e_d1 e; e_d2 := e_d2 e; e_tx := e_tx e; e_rx := e_rx e; e_nname := nn; e_pireq := e_pireq e;
     e_npi := e_npi e; e_cireq := cr; e_nci := nc; e_pgreq := gr; e_npg := ng; e_lmt := lm |}.

(* ---------- the list ---------- *)
Record state := { heap : list (option entry); sources : list (option nat); maxdev : Z; updated : bool; pending : bool }.
Definition init_state : state :=
  {| heap := []; sources := repeat None 254; maxdev := 0; updated := false; pending := true |}.
Definition with_hs (st:state) (h:list (option entry)) (s:list (option nat)) (mx:Z) : state :=
  {| heap := h; sources := s; maxdev := mx; updated := updated st; pending := pending st |}.
Definition with_flags (st:state) (u p:bool) : state :=
  {| heap := heap st; sources := sources st; maxdev := maxdev st; updated := u; pending := p |}.

Definition src_ok (i:Z) : bool := (0 <=? i) && (i <? MaxBus).
(* Sources[i] *)
Definition src_get (st:state) (i:Z) : res (option nat) :=
  if src_ok i then match nth_error (sources st) (Z.to_nat i) with Some o => Ok o | None => OOB end else OOB.
Definition src_set (st:state) (i:Z) (v:option nat) : res state :=
  if src_ok i then Ok (with_hs st (heap st) (set_nth (sources st) (Z.to_nat i) v) (maxdev st)) else OOB.
(* *p for a tInternalDevice* *)
Definition deref (st:state) (oid:nat) : res entry :=
  match nth_error (heap st) oid with Some (Some e) => Ok e | _ => OOB end.
Definition update (st:state) (oid:nat) (e:entry) : res state :=
  match nth_error (heap st) oid with
  | Some (Some _) => Ok (with_hs st (set_nth (heap st) oid (Some e)) (sources st) (maxdev st))
  | _ => OOB
  end.
(* delete p *)
Definition free (st:state) (oid:nat) : res state :=
  match nth_error (heap st) oid with
  | Some (Some _) => Ok (with_hs st (set_nth (heap st) oid None) (sources st) (maxdev st))
  | _ => OOB
  end.
(* new tInternalDevice(...) *)
Definition alloc (st:state) (e:entry) : state * nat :=
  (with_hs st (heap st ++ [Some e]) (sources st) (maxdev st), length (heap st)).

(* SaveDevice(pDevice, Source) *)
Definition save_device (st:state) (oid:nat) (s:Z) : res state :=
  if s >=? MaxBus then Ok st else
  e <- deref st oid ;;
  st1 <- update st oid (with_src e s) ;;
  st2 <- src_set st1 s (Some oid) ;;
  Ok (if s >=? maxdev st2 then with_hs st2 (heap st2) (sources st2) (s + 1) else st2).

(* LocalFindDeviceByName: for (i=0; i<MaxDevices && result==0; i++) if (Sources[i]!=0 && Sources[i]->IsSame(Name)) result=Sources[i] *)
Fixpoint fbn (st:state) (name:Z) (fuel:nat) (i:Z) : res (option nat) :=
  match fuel with
  | O => Fuel
  | S k =>
    if i >=? maxdev st then Ok None else
    o <- src_get st i ;;
    match o with
    | None => fbn st name k (i + 1)
    | Some oid => e <- deref st oid ;; if e_name e =? name then Ok (Some oid) else fbn st name k (i + 1)
    end
  end.
Definition find_by_name (st:state) (name:Z) : res (option nat) := fbn st name 300 0.
(* LocalFindDeviceBySource *)
Definition find_by_source (st:state) (s:Z) : res (option nat) := if s >=? MaxBus then Ok None else src_get st s.

(* for (i=0; i<N2kMaxBusDevices && Sources[i]!=0; i++); *)
Fixpoint first_none (l:list (option nat)) (i:Z) : Z :=
  match l with [] => i | None :: _ => i | Some _ :: r => first_none r (i + 1) end.

(* an ISO request the list puts on the bus: (destination, requested PGN); [ok] = SendMsg() succeeds during this message *)
Definition req := (Z * Z)%type.
Definition send (ok:bool) (dst pgn:Z) : list req := if ok then [(dst, pgn)] else [].

(* ---------- HandleIsoAddressClaim ---------- *)
Definition clear_pi_loaded (e:entry) : entry := with_pi e false (e_pi e) 0 0.      (* ClearProductInformationLoaded *)

Definition claim_finish (st:state) (oid:nat) (rq:list req) : res (state * list req) :=
  e <- deref st oid ;;
  st1 <- update st oid (clear_pi_loaded e) ;;
  Ok (with_flags st1 true true, rq).

(* "New or changed source" *)
Definition claim_place (now:Z) (st:state) (s cn:Z) (rq:list req) : res (state * list req) :=
  o <- find_by_name st cn ;;
  match o with
  | Some oid =>
    e <- deref st oid ;;
    st1 <- src_set st (e_src e) None ;;
    st2 <- save_device st1 oid s ;;
    claim_finish st2 oid rq
  | None =>
    let (st1, oid) := alloc st (new_entry cn now) in
    st2 <- save_device st1 oid s ;;
    claim_finish st2 oid rq
  end.

Definition handle_claim (now:Z) (ok:bool) (m:bmsg) (st:state) : res (state * list req) :=
  let s := b_src m in
  let cn := claim_name m in
  o <- src_get st s ;;
  match o with
  | None => claim_place now st s cn []
  | Some oid =>
    e <- deref st oid ;;
    if e_name e =? 0 then
      o2 <- find_by_name st cn ;;
      match o2 with
      | Some oid2 =>
        if Nat.eqb oid2 oid then
          st1 <- update st oid (with_name e cn) ;;
          claim_finish (with_flags st1 true (pending st1)) oid []
        else
          st1 <- free st oid ;;
          e2 <- deref st1 oid2 ;;
          st2 <- src_set st1 (e_src e2) None ;;
          st3 <- save_device st2 oid2 s ;;
          claim_finish st3 oid2 []
      | None =>
        st1 <- update st oid (with_name e cn) ;;
        claim_finish (with_flags st1 true (pending st1)) oid []
      end
    else if negb (e_name e =? cn) then
      let i := first_none (sources st) 0 in
      r <- (if i <? MaxBus then st1 <- save_device st oid i ;; Ok (st1, send ok 255 PGN_claim)
            else st1 <- free st oid ;; Ok (st1, [])) ;;
      let (st1, rq) := r in
      st2 <- src_set st1 s None ;;
      claim_place now st2 s cn rq
    else Ok (st, [])
  end.

(* ---------- HandleProductInformation ---------- *)
Definition handle_prod (m:bmsg) (st:state) : res state :=
  o <- src_get st (b_src m) ;;
  match o with
  | None => Ok st
  | Some oid =>
    e <- deref st oid ;;
    if e_pil e then Ok st else
    match parse_pi m with
    | None => Ok st
    | Some raw =>
      if pi_same raw (e_pi e) then update st oid (with_pi e true (e_pi e) (e_pireq e) (e_npi e))
      else st1 <- update st oid (with_pi e true (pi_norm raw) (e_pireq e) (e_npi e)) ;; Ok (with_flags st1 true (pending st1))
    end
  end.

(* ---------- HandleConfigurationInformation ---------- *)
Definition SCRATCH : Z := 335.                     (* (tN2kMsg::MaxDataLen*3)/2+1 *)
(* first pass of ParseN2kPGN126998: all three strings into the same scratch buffer, only the sizes are kept.
   Order in the payload: InstallationDescription1, InstallationDescription2, ManufacturerInformation.  Result (ManISize, Desc1Size, Desc2Size) *)
Definition measure_conf (tm:msg) : res (option (Z * Z * Z)) :=
  let scratch := repeat 0 (Z.to_nat SCRATCH) in
  r1 <- get_var_str3 tm SCRATCH scratch 0 ;;
  let '(ok1, s1, i1, b1) := r1 in
  if negb ok1 then Ok None else
  r2 <- get_var_str3 tm SCRATCH b1 i1 ;;
  let '(ok2, s2, i2, b2) := r2 in
  if negb ok2 then Ok None else
  r3 <- get_var_str3 tm SCRATCH b2 i2 ;;
  let '(ok3, s3, _, _) := r3 in
  if negb ok3 then Ok None else Ok (Some (s3, s1, s2)).

(* a field of ConfI as an object of its own: [sz] bytes from offset [off]; beyond the buffer = OOB *)
Definition slice (buf:list Z) (off sz:Z) : res (list Z) :=
  if (0 <=? off) && (0 <=? sz) && (off + sz <=? Z.of_nat (length buf)) then Ok (firstn (Z.to_nat sz) (skipn (Z.to_nat off) buf)) else OOB.
Definition put (buf:list Z) (off:Z) (d:list Z) : list Z :=
  firstn (Z.to_nat off) buf ++ d ++ skipn (Z.to_nat off + length d) buf.

(* GetVarStr(Size, field pointer, Index) of the second pass: a null pointer / size 0 copies nothing *)
Definition read_field (tm:msg) (buf:option (list Z)) (ptr:option Z) (sz idx:Z) : res (bool * Z * option (list Z)) :=
  match buf, ptr with
  | Some b, Some off =>
    d <- slice b off sz ;;
    r <- get_var_str3 tm sz d idx ;;
    let '(ok, _, i, d') := r in Ok (ok, i, Some (put b off d'))
  | _, _ =>
    r <- get_var_str3 tm 0 [] idx ;;
    let '(ok, _, i, _) := r in Ok (ok, i, buf)
  end.

(* InitConfigurationInformation(_ManISize,_InstDesc1Size,_InstDesc2Size) (sizes already incremented for the terminator) *)
Definition init_conf (e:entry) (szM sz1 sz2:Z) : res entry :=
  let total := (szM + sz1 + sz2) mod 65536 in
  let kept := match e_confi e with Some b => if Z.of_nat (length b) <? total then None else Some b | None => None end in
  let buf := match kept with Some b => Some b | None => if total >? 0 then Some (repeat 0 (Z.to_nat total)) else None end in
  let mark (b:option (list Z)) (sz off:Z) : res (option (list Z) * option Z) :=
      if sz >? 0 then match b with Some l => l' <- wr l off 0 ;; Ok (Some l', Some off) | None => OOB end else Ok (b, None) in
  r1 <- mark buf szM 0 ;;
  r2 <- mark (fst r1) sz1 szM ;;
  r3 <- mark (fst r2) sz2 (szM + sz1) ;;
  Ok (with_conf e true (fst r3) (snd r1) (snd r2) (snd r3)).

Definition handle_conf (m:bmsg) (st:state) : res state :=
  o <- src_get st (b_src m) ;;
  match o with
  | None => Ok st
  | Some oid =>
    e <- deref st oid ;;
    let tm := tmsg m in
    ms <- measure_conf tm ;;
    match ms with
    | None => Ok st
    | Some (m0, a0, b0) =>
      let szM := if m0 >? 0 then m0 + 1 else 0 in
      let sz1 := if a0 >? 0 then a0 + 1 else 0 in
      let sz2 := if b0 >? 0 then b0 + 1 else 0 in
      e1 <- init_conf e szM sz1 sz2 ;;
      e2 <- (if szM + sz1 + sz2 >? 0 then
               r1 <- read_field tm (e_confi e1) (e_d1 e1) sz1 0 ;;
               let '(ok1, i1, c1) := r1 in
               if negb ok1 then Ok (with_conf e1 true c1 (e_man e1) (e_d1 e1) (e_d2 e1)) else
               r2 <- read_field tm c1 (e_d2 e1) sz2 i1 ;;
               let '(ok2, i2, c2) := r2 in
               if negb ok2 then Ok (with_conf e1 true c2 (e_man e1) (e_d1 e1) (e_d2 e1)) else
               r3 <- read_field tm c2 (e_man e1) szM i2 ;;
               let '(_, _, c3) := r3 in
               Ok (with_conf e1 true c3 (e_man e1) (e_d1 e1) (e_d2 e1))
             else Ok e1) ;;
      st1 <- update st oid e2 ;;
      Ok (with_flags st1 true (pending st1))
    end
  end.

(* ---------- HandleSupportedPGNList ---------- *)
(* InitTransmitPGNs / InitReceivePGNs(count): the array has TransmitPGNsSize+1 cells *)
Definition init_list (old:option (list Z)) (count:Z) : res (list Z) :=
  let kept := match old with Some l => if Z.of_nat (length l) - 1 <? count then None else Some l | None => None end in
  let l := match kept with Some l => l | None => repeat 0 (Z.to_nat (count + 1)) end in
  wr l 0 0.
Fixpoint fill_list (d:list Z) (n:nat) (i idx:Z) (l:list Z) : res (list Z) :=      (* PGNList[iPGN]=Get3ByteUInt(Index) *)
  match n with
  | O => Ok l
  | S k => let (v, idx') := get_num d 3 idx 4294967295 in l' <- wr l i v ;; fill_list d k (i + 1) idx' l'
  end.
Definition handle_list (m:bmsg) (st:state) : res state :=
  o <- src_get st (b_src m) ;;
  match o with
  | None => Ok st
  | Some oid =>
    e <- deref st oid ;;
    let d := pl m in
    let (kind, idx) := if 0 <? dlen m then (znth d 0 0, 1) else (255, 0) in
    let count := ((dlen m - idx) / 3) mod 256 in
    let store (old:option (list Z)) : res (list Z) :=
        l0 <- init_list old count ;; l1 <- fill_list d (Z.to_nat count) 0 idx l0 ;; wr l1 count 0 in
    e1 <- (if kind =? 0 then l <- store (e_tx e) ;; Ok (with_lists e (Some l) (e_rx e))
           else if kind =? 1 then l <- store (e_rx e) ;; Ok (with_lists e (e_tx e) (Some l))
           else Ok e) ;;
    st1 <- update st oid e1 ;;
    Ok (with_flags st1 true (pending st1))
  end.

(* ---------- HandleOther: the request pacing ---------- *)
(* N2kHasElapsed(Start,Elapsed,Now) = Now-(Start+Elapsed)<INT32_MAX in uint32_t *)
Definition has_elapsed (start el now:Z) : bool := (now - (start + el)) mod two32 <? int32max.
Definition should_pi (e:entry) : bool := negb (e_pil e) && (e_npi e <? 4).
Definition ready_pi (now:Z) (e:entry) : bool := should_pi e && ((e_npi e =? 0) || has_elapsed (e_pireq e) 1000 now) && has_elapsed (e_ctime e) 1000 now.
Definition mark_pi (now:Z) (e:entry) : entry := with_pi e (e_pil e) (e_pi e) now (e_npi e + 1).
Definition should_ci (e:entry) : bool := negb (e_cil e) && (e_nci e <? 4).
Definition ready_ci (now:Z) (e:entry) : bool := should_ci e && ((e_nci e =? 0) || has_elapsed (e_cireq e) 1000 now) && has_elapsed (e_ctime e) 1000 now.
Definition mark_ci (now:Z) (e:entry) : entry := with_req e (e_nname e) now (e_nci e + 1) (e_pgreq e) (e_npg e) (e_lmt e).
Definition is_none {A} (o:option A) : bool := match o with None => true | Some _ => false end.
Definition should_pg (e:entry) : bool := (is_none (e_tx e) || is_none (e_rx e)) && (e_npg e <? 4).
Definition ready_pg (now:Z) (e:entry) : bool := should_pg e && ((e_npg e =? 0) || has_elapsed (e_pgreq e) 1000 now) && has_elapsed (e_ctime e) 1000 now.
Definition mark_pg (now:Z) (e:entry) : entry := with_req e (e_nname e) (e_cireq e) (e_nci e) now (e_npg e + 1) (e_lmt e).

(* one of the three loops "for (i=0; i<MaxDevices; i++) if (Sources[i]!=0) { if (Ready) { if (Request) {Set; pending=true; return;} } else pending|=Should }":
   result (state, requests, returned?, HasPendingRequests) *)
Fixpoint scan_req (ready should:entry -> bool) (mark:entry -> entry) (pgn:Z) (ok:bool) (st:state) (fuel:nat) (i:Z) (pend:bool)
  : res (state * list req * bool * bool) :=
  match fuel with
  | O => Fuel
  | S k =>
    if i >=? maxdev st then Ok (st, [], false, pend) else
    o <- src_get st i ;;
    match o with
    | None => scan_req ready should mark pgn ok st k (i + 1) pend
    | Some oid =>
      e <- deref st oid ;;
      if ready e then
        if ok then st1 <- update st oid (mark e) ;; Ok (st1, [(e_src e, pgn)], true, true)
        else scan_req ready should mark pgn ok st k (i + 1) pend
      else scan_req ready should mark pgn ok st k (i + 1) (pend || should e)
    end
  end.

Definition handle_other (now:Z) (ok:bool) (m:bmsg) (st:state) : res (state * list req) :=
  if negb (pending st) then Ok (st, []) else
  o <- src_get st (b_src m) ;;
  match o with
  | None => OOB                                                 (* Sources[N2kMsg.Source]->ShouldRequestName() through a null pointer *)
  | Some oid =>
    e <- deref st oid ;;
    (* Require name for every device *)
    r0 <- (if (e_name e =? 0) && (e_nname e <? 20) && ok
           then st1 <- update st oid (with_req e ((e_nname e + 1) mod 256) (e_cireq e) (e_nci e) (e_pgreq e) (e_npg e) (e_lmt e)) ;;
                Ok (st1, [(b_src m, PGN_claim)], true)
           else Ok (st, [], false)) ;;
    let '(st1, rq0, p0) := r0 in
    r1 <- scan_req (ready_pi now) should_pi (mark_pi now) PGN_prod ok st1 300 0 p0 ;;
    let '(st2, rq1, ret1, p1) := r1 in
    if ret1 || p1 then Ok (with_flags st2 (updated st2) p1, rq0 ++ rq1) else
    r2 <- scan_req (ready_ci now) should_ci (mark_ci now) PGN_conf ok st2 300 0 p1 ;;
    let '(st3, rq2, ret2, p2) := r2 in
    if ret2 || p2 then Ok (with_flags st3 (updated st3) p2, rq0 ++ rq2) else
    r3 <- scan_req (ready_pg now) should_pg (mark_pg now) PGN_list ok st3 300 0 p2 ;;
    let '(st4, rq3, _, p3) := r3 in
    Ok (with_flags st4 (updated st4) p3, rq0 ++ rq3)
  end.

(* ---------- AddDevice / HandleMsg ---------- *)
Definition add_device (now:Z) (ok:bool) (s:Z) (st:state) : res (state * list req) :=
  if ok then
    let (st1, oid) := alloc st (new_entry 0 now) in
    st2 <- save_device st1 oid s ;;
    Ok (with_flags st2 (updated st2) true, [(s, PGN_claim)])
  else Ok (st, []).

(* the end of HandleMsg: restart the name requests of a silent device, LastMessageTime *)
Definition touch (now:Z) (s:Z) (st:state) : res state :=
  o <- src_get st s ;;
  match o with
  | None => Ok st
  | Some oid =>
    e <- deref st oid ;;
    let again := (e_name e =? 0) && (e_nname e >? 0) && has_elapsed (e_lmt e) 60000 now in
    st1 <- update st oid (with_req e (if again then 0 else e_nname e) (e_cireq e) (e_nci e) (e_pgreq e) (e_npg e) now) ;;
    Ok (if again then with_flags st1 (updated st1) true else st1)
  end.

Definition is_info_pgn (p:Z) : bool := (p =? PGN_prod) || (p =? PGN_conf) || (p =? PGN_list).

(* HandleMsg(N2kMsg) at clock value [now]; [ok]: SendMsg() of the attached node succeeds while this message is handled *)
Definition handle_msg (now:Z) (ok:bool) (m:bmsg) (st:state) : res (state * list req) :=
  let s := b_src m in
  let p := b_pgn m in
  if negb ((0 <=? s) && (s <? MaxBus)) then Ok (st, []) else
  o <- src_get st s ;;
  r0 <- (match o with
         | Some _ => Ok (st, [], false)
         | None =>
           if p =? PGN_claim then Ok (st, [], false)
           else r <- add_device now ok s st ;; Ok (fst r, snd r, negb (is_info_pgn p))
         end) ;;
  let '(st1, rq0, stop) := r0 in
  if stop then Ok (st1, rq0) else
  r1 <- (if p =? PGN_claim then handle_claim now ok m st1
         else if p =? PGN_prod then st2 <- handle_prod m st1 ;; Ok (st2, [])
         else if p =? PGN_conf then st2 <- handle_conf m st1 ;; Ok (st2, [])
         else if p =? PGN_list then st2 <- handle_list m st1 ;; Ok (st2, [])
         else handle_other now ok m st1) ;;
  let (st2, rq1) := r1 in
  st3 <- touch now s st2 ;;
  Ok (st3, rq0 ++ rq1).

(* bool ReadResetIsListUpdated() *)
Definition read_reset (st:state) : state * bool := (with_flags st false (pending st), updated st).

(* a history: (clock value, SendMsg succeeds, message) *)
Definition event := (Z * bool * bmsg)%type.
Fixpoint run (h:list event) (st:state) : res state :=
  match h with
  | [] => Ok st
  | (now, ok, m) :: r => x <- handle_msg now ok m st ;; run r (fst x)
  end.
(* the ISO requests the list sends, message by message *)
Fixpoint run_log (h:list event) (st:state) : res (list (list req)) :=
  match h with
  | [] => Ok []
  | (now, ok, m) :: r => x <- handle_msg now ok m st ;; l <- run_log r (fst x) ;; Ok (snd x :: l)
  end.

(* ---------- what the application reads (const tDevice* getters) ---------- *)
(* a char* getter: the C string at [off] of the buffer; running off the buffer without meeting a NUL is a read overflow *)
Fixpoint cstr_go (l:list Z) : res (list Z) :=
  match l with [] => OOB | b :: r => if b =? 0 then Ok [] else t <- cstr_go r ;; Ok (b :: t) end.
Definition conf_str (e:entry) (ptr:option Z) : res (option (list Z)) :=
  match ptr with
  | None => Ok None
  | Some off => match e_confi e with
                | Some b => if (0 <=? off) && (off <=? Z.of_nat (length b)) then s <- cstr_go (skipn (Z.to_nat off) b) ;; Ok (Some s) else OOB
                | None => OOB
                end
  end.
(* GetTransmitPGNs(): the zero terminated list *)
Fixpoint zlist_go (l:list Z) : res (list Z) :=
  match l with [] => OOB | b :: r => if b =? 0 then Ok [] else t <- zlist_go r ;; Ok (b :: t) end.
Definition pgn_list (o:option (list Z)) : res (option (list Z)) :=
  match o with None => Ok None | Some l => r <- zlist_go l ;; Ok (Some r) end.

Record view := { v_name : Z; v_src : Z; v_pi : prodinfo; v_man : option (list Z); v_d1 : option (list Z); v_d2 : option (list Z);
                 v_tx : option (list Z); v_rx : option (list Z) }.
Definition view_of (e:entry) : res view :=
  a <- conf_str e (e_man e) ;; b <- conf_str e (e_d1 e) ;; c <- conf_str e (e_d2 e) ;;
  t <- pgn_list (e_tx e) ;; r <- pgn_list (e_rx e) ;;
  Ok {| v_name := e_name e; v_src := e_src e; v_pi := e_pi e; v_man := a; v_d1 := b; v_d2 := c; v_tx := t; v_rx := r |}.
(* FindDeviceBySource(s) and the getters of the result; FindDeviceByName(n)->GetSource() *)
Definition by_source (st:state) (s:Z) : res (option (entry * view)) :=
  o <- find_by_source st s ;;
  match o with None => Ok None | Some oid => e <- deref st oid ;; v <- view_of e ;; Ok (Some (e, v)) end.
Definition by_name (st:state) (n:Z) : res (option Z) :=
  o <- find_by_name st n ;;
  match o with None => Ok None | Some oid => e <- deref st oid ;; Ok (Some (e_src e)) end.
(* Count() *)
Fixpoint count_go (st:state) (fuel:nat) (i:Z) (acc:Z) : res Z :=
  match fuel with
  | O => Fuel
  | S k => if i >=? maxdev st then Ok acc else o <- src_get st i ;; count_go st k (i + 1) (if is_none o then acc else acc + 1)
  end.
Definition count (st:state) : res Z := count_go st 300 0 0.
