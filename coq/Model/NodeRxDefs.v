(* Executable model of tNMEA2000 (src/NMEA2000.cpp), part 2: the receive path (reassembly slots, ISO-TP both roles), system message
   handling (address claim, commanded address, ISO request and its answers), pending information, heartbeat, the open state
   machine and ParseMessages.  Built over part 1 (Model/NodeDefs.v) by composition so that part 1 stays stable.
   NOT modelled here: group functions (PGN 126208) - the default handlers are a separate development; message forwarding to a stream. *)
From Coq Require Import ZArith List Bool.
From N2kV Require Import Base.ListAux Model.CanId Model.Sched Model.PgnClass Model.NodeDefs Gen.GenTables Gen.GenConsts.
Import ListNotations.
Local Open Scope Z_scope.

(* ---------- reassembly slots (tN2kCANMsg) ---------- *)
Record slot := {
  s_free : bool; s_ready : bool; s_known : bool; s_system : bool;
  s_pri : Z; s_pgn : Z; s_src : Z; s_dst : Z; s_tp : bool;
  s_len : Z;                 (* N2kMsg.DataLen *)
  s_data : list Z;           (* Data[0..CopiedLen) *)
  s_last : Z;                (* LastFrame *)
  s_time : Z;                (* N2kMsg.MsgTime (32-bit clock value) *)
  s_tpmax : Z; s_tpreq : Z   (* TPMaxPackets, TPRequireCTS *)
}.
Definition slot0 : slot :=
  {| s_free := true; s_ready := false; s_known := false; s_system := false; s_pri := 0; s_pgn := 0; s_src := 0; s_dst := 0; s_tp := false;
     s_len := 0; s_data := []; s_last := 0; s_time := 0; s_tpmax := 0; s_tpreq := 0 |}.
(* FreeMessage(): does not touch KnownMessage, Priority, Destination, the TP flag, LastFrame, CopiedLen *)
Definition free_slot (s:slot) : slot :=
  {| s_free := true; s_ready := false; s_known := s_known s; s_system := false; s_pri := s_pri s; s_pgn := 0; s_src := 0; s_dst := s_dst s;
     s_tp := s_tp s; s_len := 0; s_data := s_data s; s_last := s_last s; s_time := 0; s_tpmax := 0; s_tpreq := 0 |}.

(* CopyBufToCANMsg(msg, start, len, buf): bounded append of buf[start..len) *)
Definition copy_buf (d:list Z) (start len:Z) (buf:list Z) : list Z :=
  d ++ firstn (Z.to_nat c_MaxDataLen - length d) (firstn (Z.to_nat (len - start)) (skipn (Z.to_nat start) buf)).

(* ---------- per-device state beyond part 1 ---------- *)
Record devx := {
  x_pend_claim : Z; x_pend_prod : Z; x_pend_conf : Z;        (* tN2kScheduler *)
  x_hb : ssched; x_hb_seq : Z;                              (* heartbeat *)
  x_rx : list Z                                             (* application's receive PGN list *)
}.
Definition ddevx : devx := {| x_pend_claim := 0; x_pend_prod := 0; x_pend_conf := 0; x_hb := {| ss_next := 0; ss_offset := 0; ss_period := 0 |}; x_hb_seq := 0; x_rx := [] |}.

Record rxframe := { r_id : Z; r_len : Z; r_buf : list Z }.     (* what CANGetFrame delivers: all 8 buffer bytes, of which r_len are valid *)

(* configuration fixed before Open *)
Record rcfg := {
  c_only_known : bool;                 (* HandleOnlyKnownMessages *)
  c_iso_handler : option (list Z);     (* application ISO request handler: the PGNs it accepts (it sends nothing itself) *)
  c_prodinfo : list Z;                 (* payload of PGN 126996 for device 0 (all devices use it) *)
  c_confinfo : list Z;                 (* payload of PGN 126998 *)
  c_hb_on : bool;                      (* harness switch: heartbeat left enabled *)
  c_inst1 : list Z; c_inst2 : list Z; c_manuf : list Z;   (* InstallationDescription1/2, ManufacturerInformation as C strings (bytes before the NUL) *)
  c_inst_changed : bool                (* InstallationDescriptionChanged *)
}.

Record rnode := {
  rn : node;
  rx_dev : list devx;
  r_slots : list slot;
  r_q : list rxframe;                  (* frames waiting in the driver *)
  r_cfg : rcfg;
  r_open_sched : Z;
  r_sync : Z;                          (* tN2kSyncScheduler::SyncOffset *)
  r_devinfo_changed : bool;
  r_oob : bool;                        (* sticky: an array of the C++ (Devices[], N2kCANMsgBuf[]) was indexed outside its bounds *)
  r_clk : Z * Z                        (* RollCount and LastRead of N2kMillis64() in the 32-bit build (static locals of N2kTimer.cpp) *)
}.
Definition with_rn (r:rnode) (n:node) : rnode :=
  {| rn := n; rx_dev := rx_dev r; r_slots := r_slots r; r_q := r_q r; r_cfg := r_cfg r; r_open_sched := r_open_sched r; r_sync := r_sync r;
     r_devinfo_changed := r_devinfo_changed r; r_oob := r_oob r; r_clk := r_clk r |}.
Definition with_slots (r:rnode) (s:list slot) : rnode :=
  {| rn := rn r; rx_dev := rx_dev r; r_slots := s; r_q := r_q r; r_cfg := r_cfg r; r_open_sched := r_open_sched r; r_sync := r_sync r;
     r_devinfo_changed := r_devinfo_changed r; r_oob := r_oob r; r_clk := r_clk r |}.
Definition with_devx (r:rnode) (i:Z) (x:devx) : rnode :=
  {| rn := rn r; rx_dev := zset (rx_dev r) i x; r_slots := r_slots r; r_q := r_q r; r_cfg := r_cfg r; r_open_sched := r_open_sched r; r_sync := r_sync r;
     r_devinfo_changed := r_devinfo_changed r; r_oob := r_oob r; r_clk := r_clk r |}.
Definition with_rxq (r:rnode) (q:list rxframe) : rnode :=
  {| rn := rn r; rx_dev := rx_dev r; r_slots := r_slots r; r_q := q; r_cfg := r_cfg r; r_open_sched := r_open_sched r; r_sync := r_sync r;
     r_devinfo_changed := r_devinfo_changed r; r_oob := r_oob r; r_clk := r_clk r |}.
Definition with_open (r:rnode) (st:Z) (sched:Z) : rnode :=
  let n := rn r in
  {| rn := {| n_w64 := n_w64 n; n_mode := n_mode n; n_open := st; n_now := n_now n; n_pgn := n_pgn n; n_devs := n_devs n; n_q := n_q n; n_drv := n_drv n;
              n_addr_changed := n_addr_changed n |};
     rx_dev := rx_dev r; r_slots := r_slots r; r_q := r_q r; r_cfg := r_cfg r; r_open_sched := sched; r_sync := r_sync r; r_devinfo_changed := r_devinfo_changed r; r_oob := r_oob r; r_clk := r_clk r |}.
Definition with_sync (r:rnode) (s:Z) : rnode :=
  {| rn := rn r; rx_dev := rx_dev r; r_slots := r_slots r; r_q := r_q r; r_cfg := r_cfg r; r_open_sched := r_open_sched r; r_sync := s;
     r_devinfo_changed := r_devinfo_changed r; r_oob := r_oob r; r_clk := r_clk r |}.
Definition with_devinfo_changed (r:rnode) : rnode :=
  {| rn := rn r; rx_dev := rx_dev r; r_slots := r_slots r; r_q := r_q r; r_cfg := r_cfg r; r_open_sched := r_open_sched r; r_sync := r_sync r;
     r_devinfo_changed := true; r_oob := r_oob r; r_clk := r_clk r |}.
Definition get_devx (r:rnode) (i:Z) : devx := znth (rx_dev r) i ddevx.
Definition w64 (r:rnode) : bool := n_w64 (rn r).
Definition now (r:rnode) : Z := n_now (rn r).
Definition now32 (r:rnode) : Z := u32 (now r).
Definition nslots (r:rnode) : Z := Z.of_nat (length (r_slots r)).

Definition with_clk (r:rnode) (c:Z*Z) : rnode :=
  {| rn := rn r; rx_dev := rx_dev r; r_slots := r_slots r; r_q := r_q r; r_cfg := r_cfg r; r_open_sched := r_open_sched r; r_sync := r_sync r;
     r_devinfo_changed := r_devinfo_changed r; r_oob := r_oob r; r_clk := c |}.
(* N2kMillis64(): the 64-bit build reads the clock; the 32-bit build extends millis() with a roll counter that is only updated when called *)
Definition millis64 (r:rnode) : rnode * Z :=
  if w64 r then (r, now r) else
  let n32 := now32 r in
  let rolls := if snd (r_clk r) >? n32 then (fst (r_clk r) + 1) mod M32 else fst (r_clk r) in
  (with_clk r (rolls, n32), rolls * M32 + n32).

Definition set_oob (r:rnode) : rnode :=
  {| rn := rn r; rx_dev := rx_dev r; r_slots := r_slots r; r_q := r_q r; r_cfg := r_cfg r; r_open_sched := r_open_sched r; r_sync := r_sync r;
     r_devinfo_changed := r_devinfo_changed r; r_oob := true; r_clk := r_clk r |}.
(* every use of Devices[i] / N2kCANMsgBuf[i] in the C++ corresponds to one of these checks in the model *)
Definition chk_dev (r:rnode) (i:Z) : rnode := if (0 <=? i) && (i <? dev_count (rn r)) then r else set_oob r.
Definition chk_slot (r:rnode) (i:Z) : rnode := if (0 <=? i) && (i <? nslots r) then r else set_oob r.

Definition rsend (r:rnode) (m:msg) (idev:Z) : rnode * list event * bool :=
  let '(n', ev, ok) := send_msg (rn r) m idev in (with_rn r n', ev, ok).

(* FindSourceDeviceIndex *)
Fixpoint find_src (devs:list dev) (src:Z) (i:Z) : Z :=
  match devs with [] => -1 | d :: rest => if d_src d =? src then i else find_src rest src (i+1) end.
Definition find_source_device (r:rnode) (src:Z) : Z := if src <=? 253 then find_src (n_devs (rn r)) src 0 else -1.

(* ---------- FindFreeCANMsgIndex ---------- *)
(* scan: first slot that is free or matches; remembers the "oldest" slot passed over, exactly as the loop does *)
Fixpoint ff_scan (slots:list slot) (pgn src dst:Z) (tp:bool) (i:Z) (oldest_i oldest_t:Z) : Z * Z * Z :=
  match slots with
  | [] => (i, oldest_i, oldest_t)
  | s :: rest =>
    if s_free s || ((s_pgn s =? pgn) && (s_src s =? src) && (s_dst s =? dst) && Bool.eqb (s_tp s) tp) then (i, oldest_i, oldest_t)
    else if is_time_before (s_time s) oldest_t then ff_scan rest pgn src dst tp (i+1) i (s_time s)
    else ff_scan rest pgn src dst tp (i+1) oldest_i oldest_t
  end.
(* returns the slot table (an expired slot is freed) and the index, = number of slots when none *)
(* first pass: the busy slot that already holds this message (PGN, source, destination, TP flag); = number of slots when none *)
Fixpoint ff_key (slots:list slot) (pgn src dst:Z) (tp:bool) (i:Z) : Z :=
  match slots with
  | [] => i
  | s :: rest =>
    if negb (s_free s) && (s_pgn s =? pgn) && (s_src s =? src) && (s_dst s =? dst) && Bool.eqb (s_tp s) tp then i
    else ff_key rest pgn src dst tp (i+1)
  end.
Definition find_free_slot (r:rnode) (pgn src dst:Z) (tp:bool) : list slot * Z :=
  let mx := nslots r in
  let k := ff_key (r_slots r) pgn src dst tp 0 in
  if k <? mx then (r_slots r, k) else
  let '(i, oi, ot) := ff_scan (r_slots r) pgn src dst tp 0 mx (now32 r) in
  if (i =? mx) && has_elapsed ot c_Max_N2kMsgBuf_Time (now32 r)
  then (zset (r_slots r) oi (free_slot (znth (r_slots r) oi slot0)), oi)      (* oi < mx: see ff_scan_oldest_range in the proofs; re-checked by chk_slot at the use *)
  else (r_slots r, i).

(* ---------- ISO-TP: control messages we send ---------- *)
Definition tp_cts_packets (n:Z) : Z := Z.max 1 (Z.min n c_TP_MAX_FRAMES).
Definition tpcm (src dst:Z) (data:list Z) : msg := {| m_pri := 6; m_pgn := c_TP_CM; m_src := src; m_dst := dst; m_data := data; m_tp := false |}.
Definition dev_src (r:rnode) (i:Z) : Z := d_src (get_dev (rn r) i).
Definition send_tpcm_cts (r:rnode) (pgn dst idev npackets nextp:Z) : rnode * list event :=
  let r := chk_dev r idev in
  if negb (is_active_node (rn r)) then (r, []) else
  let '(r', ev, _) := rsend r (tpcm (dev_src r idev) dst ([c_TP_CM_CTS; tp_cts_packets npackets; u8 nextp; 255; 255] ++ le_bytes 3 pgn)) idev in (r', ev).
Definition send_tpcm_endack (r:rnode) (pgn dst idev nbytes npackets:Z) : rnode * list event :=
  let r := chk_dev r idev in
  if negb (is_active_node (rn r)) then (r, []) else
  let '(r', ev, _) := rsend r (tpcm (dev_src r idev) dst ([c_TP_CM_ACK] ++ le_bytes 2 nbytes ++ [npackets; 255] ++ le_bytes 3 pgn)) idev in (r', ev).
Definition send_tpcm_abort (r:rnode) (pgn dst idev code:Z) : rnode * list event :=
  let r := chk_dev r idev in
  if negb (is_active_node (rn r)) then (r, []) else
  let '(r', ev, _) := rsend r (tpcm (dev_src r idev) dst ([c_TP_CM_Abort; code; 255; 255; 255] ++ le_bytes 3 pgn)) idev in (r', ev).

(* ---------- ISO-TP: sending side ---------- *)
Definition set_dev_tp (r:rnode) (i:Z) (tp:option msg) (t seqn:Z) : rnode :=
  let r := chk_dev r i in
  let d := get_dev (rn r) i in
  with_rn r (upd_dev (rn r) i (set_tp d (w64 r) tp t seqn (d_has_pending d))).
Definition end_send_tp_r (r:rnode) (i:Z) : rnode :=
  let r := chk_dev r i in with_rn r (end_send_tp (rn r) i).
Definition has_all_dt_sent (d:dev) : bool :=
  match d_tp_msg d with Some m => d_next_dt_seq d * 7 >=? m_len m | None => d_next_dt_seq d * 7 >=? 0 end.
(* SendTPDT *)
Definition send_tpdt (r:rnode) (i:Z) : rnode * list event * bool :=
  let r := chk_dev r i in
  let d := get_dev (rn r) i in
  let pdata := match d_tp_msg d with Some m => m_data m | None => [] end in
  let pdst := match d_tp_msg d with Some m => m_dst m | None => 255 end in
  let sq := d_next_dt_seq d in
  let chunk := firstn 7 (skipn (Z.to_nat (sq * 7)) pdata) in
  let m := {| m_pri := 6; m_pgn := c_TP_DT; m_src := d_src d; m_dst := pdst; m_data := u8 (sq + 1) :: pad_ff 7 chunk; m_tp := false |} in
  let r1 := set_dev_tp r i (d_tp_msg d) (d_next_dt_time d) (u8 (sq + 1)) in
  rsend r1 m i.
Fixpoint send_tpdt_burst (k:nat) (r:rnode) (i:Z) : rnode * list event * bool :=
  match k with
  | O => (r, [], true)
  | S k' =>
    if has_all_dt_sent (get_dev (rn r) i) then (r, [], true) else
    let '(r1, ev1, ok) := send_tpdt r i in
    if ok then let '(r2, ev2, ok2) := send_tpdt_burst k' r1 i in (r2, ev1 ++ ev2, ok2) else (r1, ev1, false)
  end.
(* SendPendingTPMessage *)
Definition send_pending_tp (r:rnode) (i:Z) : rnode * list event :=
  let r := chk_dev r i in
  let d := get_dev (rn r) i in
  match d_tp_msg d with
  | Some m =>
    if sched_is_time (w64 r) (now r) (d_next_dt_time d) then
      if m_dst m =? 255 then
        let '(r1, ev, _) := send_tpdt r i in
        let d1 := get_dev (rn r1) i in
        let r2 := set_dev_tp r1 i (d_tp_msg d1) (sched_from_now (w64 r1) (now r1) 50) (d_next_dt_seq d1) in
        if has_all_dt_sent (get_dev (rn r2) i) then (end_send_tp_r r2 i, ev) else (r2, ev)
      else (end_send_tp_r r i, [])
    else (r, [])
  | None => (r, [])
  end.

(* ---------- TestHandleTPMessage ---------- *)
Definition byte (buf:list Z) (k:nat) : Z := nth k buf 0.
Definition le3 (buf:list Z) (k:nat) : Z := byte buf k + 256 * byte buf (k+1) + 65536 * byte buf (k+2).
Definition set_slot (r:rnode) (i:Z) (s:slot) : rnode :=
  let r := chk_slot r i in with_slots r (zset (r_slots r) i s).
Definition get_slot (r:rnode) (i:Z) : slot := znth (r_slots r) i slot0.

(* the TP.DT search: first busy TP slot with this source and destination *)
Fixpoint find_tp_slot (slots:list slot) (src dst:Z) (i:Z) : Z :=
  match slots with
  | [] => i
  | s :: rest => if negb (s_free s) && s_tp s && (s_dst s =? dst) && (s_src s =? src) then i else find_tp_slot rest src dst (i+1)
  end.

(* returns (handled, node, events, ready slot index or nslots) *)
Definition handle_tp (r:rnode) (pgn src dst len:Z) (buf:list Z) : bool * rnode * list event * Z :=
  let mx := nslots r in
  let idev := find_source_device r dst in
  if pgn =? c_TP_CM then
    let ctrl := byte buf 0 in
    let tpgn := le3 buf 5 in
    if (ctrl =? c_TP_CM_BAM) || (ctrl =? c_TP_CM_RTS) then
      let nbytes := byte buf 1 + 256 * byte buf 2 in
      let maxp := byte buf 3 in
      (* one connection per source/destination pair: an open session for another PGN is released *)
      let r := with_slots r (map (fun s => if negb (s_free s) && s_tp s && (s_src s =? src) && (s_dst s =? dst) && negb (s_pgn s =? tpgn)
                                           then free_slot s else s) (r_slots r)) in
      let '(slots1, idx) := find_free_slot r tpgn src dst true in
      let r1 := with_slots r slots1 in
      if idx =? mx then
        if (ctrl =? c_TP_CM_RTS) && (idev >=? 0) then let '(r2, ev) := send_tpcm_abort r1 tpgn src idev c_TP_CM_AbortBusy in (true, r2, ev, mx)
        else (true, r1, [], mx)
      else
        let '(known, sys, _) := check_known (n_pgn (rn r1)) tpgn in
        let r1 := chk_slot r1 idx in
        let s0 := get_slot r1 idx in
        let s1 := {| s_free := s_free s0; s_ready := s_ready s0; s_known := known; s_system := sys; s_pri := s_pri s0; s_pgn := s_pgn s0; s_src := s_src s0;
                     s_dst := s_dst s0; s_tp := s_tp s0; s_len := s_len s0; s_data := s_data s0; s_last := s_last s0; s_time := s_time s0;
                     s_tpmax := s_tpmax s0; s_tpreq := s_tpreq s0 |} in
        if (nbytes <=? c_MaxDataLen) && (known || negb (c_only_known (r_cfg r1))) then
          let answer := (ctrl =? c_TP_CM_RTS) && (idev >=? 0) in
          let s2 := {| s_free := false; s_ready := s_ready s1; s_known := known; s_system := sys; s_pri := 7; s_pgn := tpgn; s_src := src; s_dst := dst;
                       s_tp := true; s_len := nbytes; s_data := []; s_last := 0; s_time := now32 r1;
                       s_tpmax := (if answer then maxp else 255); s_tpreq := (if answer then tp_cts_packets maxp else s_tpreq s1) |} in
          let r2 := set_slot r1 idx s2 in
          if answer then let '(r3, ev) := send_tpcm_cts r2 tpgn src idev maxp 1 in (true, r3, ev, mx) else (true, r2, [], mx)
        else
          let r2 := set_slot r1 idx s1 in
          if (ctrl =? c_TP_CM_RTS) && (idev >=? 0) then let '(r3, ev) := send_tpcm_abort r2 tpgn src idev c_TP_CM_AbortBusy in (true, r3, ev, mx)
          else (true, r2, [], mx)
    else if ctrl =? c_TP_CM_CTS then
      if negb ((0 <=? idev) && (idev <? dev_count (rn r))) then (true, r, [], mx) else
      let d := get_dev (rn r) idev in
      match d_tp_msg d with
      | None => (* PendingTPMsg.PGN = 0: its Destination field is whatever the last message left; Clear() does not reset it *)
        (true, r, [], mx)
      | Some pm =>
        if m_dst pm =? 255 then (true, r, [], mx) else
        if negb (m_dst pm =? src) then (true, r, [], mx) else          (* control frame not from the node we are sending to *)
        if negb (m_pgn pm =? tpgn) then (true, end_send_tp_r r idev, [], mx) else
        if byte buf 1 >? 0 then
          if negb (byte buf 2 - 1 =? d_next_dt_seq d) then (true, end_send_tp_r r idev, [], mx) else
          let '(r1, ev, ok) := send_tpdt_burst (Z.to_nat (byte buf 1)) r idev in
          let r2 := if ok then r1 else end_send_tp_r r1 idev in
          let d2 := get_dev (rn r2) idev in
          (true, set_dev_tp r2 idev (d_tp_msg d2) (sched_from_now (w64 r2) (now r2) 100) (d_next_dt_seq d2), ev, mx)
        else
          (true, set_dev_tp r idev (d_tp_msg d) (sched_from_now (w64 r) (now r) 100) (d_next_dt_seq d), [], mx)
      end
    else if (ctrl =? c_TP_CM_ACK) || (ctrl =? c_TP_CM_Abort) then
      if negb ((0 <=? idev) && (idev <? dev_count (rn r))) then (true, r, [], mx) else
      let d := get_dev (rn r) idev in
      match d_tp_msg d with
      | Some pm => if (m_dst pm =? 255) || negb (m_dst pm =? src) then (true, r, [], mx) else (true, end_send_tp_r r idev, [], mx)
      | None => (true, r, [], mx)
      end
    else (true, r, [], mx)
  else if pgn =? c_TP_DT then
    let idx := find_tp_slot (r_slots r) src dst 0 in
    if idx <? mx then
      let r := chk_slot r idx in
      let s := get_slot r idx in
      if s_last s + 1 =? byte buf 0 then
        let data' := copy_buf (s_data s) 1 len buf in
        let s1 := {| s_free := false; s_ready := s_ready s; s_known := s_known s; s_system := s_system s; s_pri := s_pri s; s_pgn := s_pgn s; s_src := s_src s;
                     s_dst := s_dst s; s_tp := true; s_len := s_len s; s_data := data'; s_last := byte buf 0; s_time := now32 r;
                     s_tpmax := s_tpmax s; s_tpreq := s_tpreq s |} in
        if Z.of_nat (length data') >=? s_len s then
          let s2 := {| s_free := false; s_ready := true; s_known := s_known s1; s_system := s_system s1; s_pri := s_pri s1; s_pgn := s_pgn s1; s_src := s_src s1;
                       s_dst := s_dst s1; s_tp := true; s_len := s_len s1; s_data := data'; s_last := s_last s1; s_time := s_time s1;
                       s_tpmax := s_tpmax s1; s_tpreq := s_tpreq s1 |} in
          let r1 := set_slot r idx s2 in
          if (s_tpreq s2 >? 0) && (idev >=? 0) then
            let '(r2, ev) := send_tpcm_endack r1 (s_pgn s2) src idev (s_len s2) (s_last s2) in (true, r2, ev, idx)
          else (true, r1, [], idx)
        else
          let r1 := set_slot r idx s1 in
          if (s_tpreq s1 >? 0) && (idev >=? 0) && ((s_last s1) mod (s_tpreq s1) =? 0) then
            let '(r2, ev) := send_tpcm_cts r1 (s_pgn s1) src idev (s_tpmax s1) (s_last s1 + 1) in (true, r2, ev, if s_ready s1 then idx else mx)
          else (true, r1, [], if s_ready s1 then idx else mx)
      else
        let '(r1, ev) := if (s_tpreq s >? 0) && (idev >=? 0) then send_tpcm_abort r (s_pgn s) src idev c_TP_CM_AbortTimeout else (r, []) in
        (true, set_slot r1 idx (free_slot (get_slot r1 idx)), ev, mx)
    else (true, r, [], mx)
  else (false, r, [], mx).

(* ---------- SetN2kCANBufMsg ---------- *)
Fixpoint find_cont (slots:list slot) (pgn src dst:Z) (i:Z) : Z :=
  match slots with
  | [] => i
  | s :: rest => if (s_pgn s =? pgn) && (s_src s =? src) && (s_dst s =? dst) && negb (s_tp s) then i else find_cont rest pgn src dst (i+1)
  end.
Definition mark_ready (r:rnode) (idx:Z) : rnode * Z :=
  let r := chk_slot r idx in
  let s := get_slot r idx in
  let rdy := Z.of_nat (length (s_data s)) >=? s_len s in
  (set_slot r idx {| s_free := s_free s; s_ready := rdy; s_known := s_known s; s_system := s_system s; s_pri := s_pri s; s_pgn := s_pgn s; s_src := s_src s;
                     s_dst := s_dst s; s_tp := s_tp s; s_len := s_len s; s_data := s_data s; s_last := s_last s; s_time := s_time s;
                     s_tpmax := s_tpmax s; s_tpreq := s_tpreq s |},
   if rdy then idx else nslots r).
Definition rx_frame (r:rnode) (f:rxframe) : rnode * list event * Z :=
  let mx := nslots r in
  let '(pri, pgn, src, dst) := can_id_to_n2k (r_id f) in
  let buf := r_buf f in
  let len := r_len f in
  let '(handled, r1, ev, idx) := handle_tp r pgn src dst len buf in
  if handled then (r1, ev, idx) else
  let '(known, sys, fast) := check_known (n_pgn (rn r)) pgn in
  if negb (known || negb (c_only_known (r_cfg r))) then (r, [], mx) else
  if fast && negb (Z.land (byte buf 0) 31 =? 0) then
    let i := find_cont (r_slots r) pgn src dst 0 in
    if i <? mx then
      let s := get_slot r i in
      if s_last s + 1 =? byte buf 0 then
        let r2 := set_slot r i {| s_free := s_free s; s_ready := s_ready s; s_known := s_known s; s_system := s_system s; s_pri := s_pri s; s_pgn := s_pgn s;
                                  s_src := s_src s; s_dst := s_dst s; s_tp := s_tp s; s_len := s_len s; s_data := copy_buf (s_data s) 1 len buf;
                                  s_last := byte buf 0; s_time := s_time s; s_tpmax := s_tpmax s; s_tpreq := s_tpreq s |} in
        let '(r3, idx3) := mark_ready r2 i in (r3, [], idx3)
      else (set_slot r i (free_slot s), [], mx)
    else (r, [], mx)
  else
    let '(slots1, i) := find_free_slot r pgn src dst false in
    let r1 := with_slots r slots1 in
    if i <? mx then
      let s0 := get_slot r1 i in
      let base := {| s_free := false; s_ready := s_ready s0; s_known := known; s_system := sys; s_pri := Z.land pri 7; s_pgn := pgn; s_src := src; s_dst := dst;
                     s_tp := false; s_len := (if fast then byte buf 1 else len); s_data := copy_buf [] (if fast then 2 else 0) len buf;
                     s_last := (if fast then byte buf 0 else 0); s_time := now32 r1; s_tpmax := s_tpmax s0; s_tpreq := s_tpreq s0 |} in
      let '(r3, idx3) := mark_ready (set_slot r1 i base) i in (r3, [], idx3)
    else (r1, [], mx).

(* ---------- address claim ---------- *)
Definition set_src (r:rnode) (i:Z) (src:Z) (update_end:bool) : rnode :=
  let r := chk_dev r i in
  let d := get_dev (rn r) i in
  with_rn r (upd_dev (rn r) i {| d_src := src; d_name := d_name d; d_claim_end := (if update_end then claim_end_of src else d_claim_end d);
                                 d_claim_timer := d_claim_timer d; d_tx := d_tx d; d_cells := d_cells d; d_tp_msg := d_tp_msg d;
                                 d_next_dt_time := d_next_dt_time d; d_next_dt_seq := d_next_dt_seq d; d_has_pending := d_has_pending d |}).
Definition set_addr_changed (r:rnode) : rnode :=
  let n := rn r in
  with_rn r {| n_w64 := n_w64 n; n_mode := n_mode n; n_open := n_open n; n_now := n_now n; n_pgn := n_pgn n; n_devs := n_devs n; n_q := n_q n; n_drv := n_drv n;
               n_addr_changed := true |}.
Definition same_as_sibling (r:rnode) (i:Z) : bool :=
  let src := dev_src r i in
  existsb (fun p => negb (fst p =? i) && (d_src (snd p) =? src)) (combine (map Z.of_nat (seq 0 (length (n_devs (rn r))))) (n_devs (rn r))).
(* GetNextAddress(DeviceIndex, RestartAtEnd): the do-while visits at most 253 addresses + one restart *)
Fixpoint next_address (fuel:nat) (r:rnode) (i:Z) (restart:bool) : rnode :=
  match fuel with
  | O => r
  | S k =>
    let d := get_dev (rn r) i in
    if d_src d =? c_N2kNullCanBusAddress then
      if restart then
        let r1 := set_src r i 14 true in
        if same_as_sibling r1 i then next_address k r1 i restart else set_addr_changed r1
      else r
    else if negb (d_src d =? d_claim_end d) then
      let s1 := if d_src d + 1 >? c_N2kMaxCanBusAddress then 0 else d_src d + 1 in
      let r1 := set_src r i s1 false in
      if same_as_sibling r1 i then next_address k r1 i restart else set_addr_changed r1
    else set_addr_changed (set_src r i c_N2kNullCanBusAddress false)
  end.
Definition rstart_claim (r:rnode) (i:Z) : rnode * list event :=
  let r := chk_dev r i in
  let '(n', ev) := start_address_claim (rn r) i in (with_rn r n', ev).
Definition rsend_claim (r:rnode) (dst i:Z) : rnode * list event :=
  let '(n', ev) := send_iso_address_claim (rn r) dst i in (with_rn r n', ev).
Definition of_le8 (l:list Z) : Z := fold_right (fun b acc => b + 256 * acc) 0 (firstn 8 l).
(* DeviceInformation.SetDeviceInstance(GetDeviceInstance()+1): byte 4 of the NAME *)
Definition bump_instance (name:Z) : Z :=
  let inst := (name / 2^32) mod 256 in name - inst * 2^32 + ((inst + 1) mod 256) * 2^32.
Definition set_name (r:rnode) (i:Z) (nm:Z) : rnode :=
  let r := chk_dev r i in
  let d := get_dev (rn r) i in
  with_rn r (upd_dev (rn r) i {| d_src := d_src d; d_name := nm; d_claim_end := d_claim_end d; d_claim_timer := d_claim_timer d; d_tx := d_tx d; d_cells := d_cells d;
                                 d_tp_msg := d_tp_msg d; d_next_dt_time := d_next_dt_time d; d_next_dt_seq := d_next_dt_seq d; d_has_pending := d_has_pending d |}).
(* HandleISOAddressClaim; the payload getter returns the default 0xffff...ff when fewer than 8 bytes *)
Definition handle_claim (r:rnode) (src:Z) (data:list Z) : rnode * list event :=
  let i := find_source_device r src in
  if (src =? c_N2kNullCanBusAddress) || (i =? -1) then (r, []) else
  let r := chk_dev r i in
  let caller := if (8 <=? Z.of_nat (length data)) then of_le8 data else 2^64 - 1 in
  let own := d_name (get_dev (rn r) i) in
  if own <? caller then rsend_claim r 255 i
  else
    let '(n1, started) := claim_started (rn r) i in
    let r1 := if own =? caller then with_rn r n1 else r in
    if (own =? caller) && started then
      rstart_claim (with_devinfo_changed (set_name r1 i (bump_instance own))) i
    else rstart_claim (next_address 300 r1 i false) i.
(* HandleCommandedAddress (PGN 65240 delivered by ISO-TP, 9 bytes) *)
Definition commanded_one (r:rnode) (nm newaddr i:Z) : rnode * list event :=
  let r := chk_dev r i in
  if newaddr =? 255 then (r, []) else
  let d := get_dev (rn r) i in
  if (d_name d =? nm) && negb (d_src d =? newaddr) then
    let '(r1, ev) := rstart_claim (set_src r i newaddr true) i in (set_addr_changed r1, ev)
  else (r, []).
Fixpoint commanded_all (k:nat) (r:rnode) (nm newaddr i:Z) : rnode * list event :=
  match k with
  | O => (r, [])
  | S k' => let '(r1, ev1) := commanded_one r nm newaddr i in let '(r2, ev2) := commanded_all k' r1 nm newaddr (i+1) in (r2, ev1 ++ ev2)
  end.
Definition handle_commanded (r:rnode) (s:slot) : rnode * list event :=
  if negb ((s_pgn s =? 65240) && s_tp s && (s_len s =? 9)) then (r, []) else
  let i := find_source_device r (s_dst s) in
  if negb (s_dst s =? 255) && (i =? -1) then (r, []) else
  let nm := of_le8 (s_data s) in
  let newaddr := nth 8 (s_data s) 255 in
  if newaddr >=? 252 then (r, []) else
  if i =? -1 then commanded_all (length (n_devs (rn r))) r nm newaddr 0 else commanded_one r nm newaddr i.

(* ---------- ISO request ---------- *)
Definition pend_sched (r:rnode) (src mul:Z) : Z := sched_from_now (w64 r) (now r) (187 + src * mul).
Definition set_pending (r:rnode) (i:Z) (pc pp pf:Z) : rnode :=
  let r := chk_dev r i in
  let x := get_devx r i in
  with_devx r i {| x_pend_claim := pc; x_pend_prod := pp; x_pend_conf := pf; x_hb := x_hb x; x_hb_seq := x_hb_seq x; x_rx := x_rx x |}.
Definition pgn_list_msg (r:rnode) (i dst which:Z) (defaults app:list Z) : msg :=
  {| m_pri := 6; m_pgn := 126464; m_src := dev_src r i; m_dst := dst;
     m_data := which :: flat_map (le_bytes 3) (firstn (Z.to_nat c_MAX_PGNS_IN_LIST) (defaults ++ app)); m_tp := false |}.
Definition send_product_info (r:rnode) (i:Z) : rnode * list event :=
  let r := chk_dev r i in
  let m := {| m_pri := 6; m_pgn := 126996; m_src := dev_src r i; m_dst := 255; m_data := c_prodinfo (r_cfg r); m_tp := false |} in
  let '(r1, ev, ok) := rsend r m i in
  let x := get_devx r1 i in
  (set_pending r1 i (x_pend_claim x) (if ok then sched_disabled (w64 r1) else pend_sched r1 (dev_src r1 i) 8) (x_pend_conf x), ev).
Definition send_config_info (r:rnode) (i:Z) : rnode * list event :=
  let r := chk_dev r i in
  let m := {| m_pri := 6; m_pgn := 126998; m_src := dev_src r i; m_dst := 255; m_data := c_confinfo (r_cfg r); m_tp := false |} in
  let '(r1, ev, ok) := rsend r m i in
  let x := get_devx r1 i in
  (set_pending r1 i (x_pend_claim x) (x_pend_prod x) (if ok then sched_disabled (w64 r1) else pend_sched r1 (dev_src r1 i) 10), ev).
Definition respond_iso_request (r:rnode) (requester:Z) (addressed:bool) (rpgn i:Z) : rnode * list event :=
  let r := chk_dev r i in
  let '(n1, started) := claim_started (rn r) i in
  let r := with_rn r n1 in
  if started then (r, []) else
  if rpgn =? 60928 then rsend_claim r 255 i
  else if rpgn =? 126464 then
    let '(r1, ev1, _) := rsend r (pgn_list_msg r i requester 0 def_transmit_messages (d_tx (get_dev (rn r) i))) i in
    let '(r2, ev2, _) := rsend r1 (pgn_list_msg r1 i requester 1 def_receive_messages (x_rx (get_devx r1 i))) i in
    (r2, ev1 ++ ev2)
  else if rpgn =? 126996 then send_product_info r i
  else if rpgn =? 126998 then
    (* no configuration information at all (all three strings null) is modelled as the empty payload: refused to the requester, silent on broadcast *)
    match c_confinfo (r_cfg r) with
    | [] => if addressed then
              let m := {| m_pri := 6; m_pgn := 59392; m_src := 15; m_dst := requester; m_data := [1; 255; 255; 255; 255] ++ le_bytes 3 rpgn; m_tp := false |} in
              let '(r1, ev, _) := rsend r m i in (r1, ev)
            else (r, [])
    | _ :: _ => send_config_info r i
    end
  else
    let accepted :=
      match c_iso_handler (r_cfg r) with
      | Some acc => if negb addressed && is_ignore_broadcast_iso_request rpgn then None else Some (existsb (Z.eqb rpgn) acc)
      | None => Some false
      end in
    match accepted with
    | None => (r, [])
    | Some true => (r, [EvNote (1000000 + rpgn)])
    | Some false =>
      if addressed then
        let m := {| m_pri := 6; m_pgn := 59392; m_src := 15; m_dst := requester; m_data := [1; 255; 255; 255; 255] ++ le_bytes 3 rpgn; m_tp := false |} in
        let '(r1, ev, _) := rsend r m i in (r1, ev)
      else (r, [])
    end.
Fixpoint respond_all (k:nat) (r:rnode) (requester rpgn i:Z) : rnode * list event :=
  match k with
  | O => (r, [])
  | S k' => let '(r1, ev1) := respond_iso_request r requester false rpgn i in
            let '(r2, ev2) := respond_all k' r1 requester rpgn (i+1) in (r2, ev1 ++ ev2)
  end.
Definition handle_iso_request (r:rnode) (s:slot) : rnode * list event :=
  let i := find_source_device r (s_dst s) in
  if negb (s_dst s =? 255) && (i =? -1) then (r, []) else
  let rpgn := if (3 <=? s_len s) && (s_len s <=? 8) then (if 3 <=? Z.of_nat (length (s_data s)) then le3 (s_data s) 0 else 16777215) else 0 in
  if s_dst s =? 255 then respond_all (length (n_devs (rn r))) r (s_src s) rpgn 0
  else respond_iso_request r (s_src s) true rpgn i.

(* ---------- group functions (PGN 126208) ---------- *)
(* The NMEA group function handlers (N2kGroupFunction*.cpp) are a separate development (Model/GroupFnDefs.v).  Everything from here on
   is parametrised by [gf], the reaction to a completely received PGN 126208 message: HandleGroupFunction(msg).  Theorems about
   the node quantify over every gf that satisfies the stated hypotheses; the executable instance is supplied by the driver. *)
Section WithGroupFunctions.
Variable gf : rnode -> slot -> rnode * list event.

(* ---------- HandleReceivedSystemMessage ---------- *)
Definition handle_system (r:rnode) (s:slot) : rnode * list event :=
  let mode := n_mode (rn r) in
  if (mode =? 3) || (mode =? 4) then (r, []) else
  if s_system s && negb (mode =? 0) then
    if s_pgn s =? 59904 then handle_iso_request r s
    else if s_pgn s =? 60928 then handle_claim r (s_src s) (firstn (Z.to_nat (s_len s)) (s_data s))
    else if s_pgn s =? 65240 then handle_commanded r s
    else if s_pgn s =? 126208 then gf r s
    else (r, [])             (* 59392: nothing *)
  else (r, []).

(* ---------- pending information, heartbeat ---------- *)
Definition send_pending_info_dev (r:rnode) (i:Z) : rnode * list event :=
  let r := chk_dev r i in
  let '(r1, ev1) := send_pending_tp r i in
  let x := get_devx r1 i in
  let '(r2, ev2) :=
    if sched_is_time (w64 r1) (now r1) (x_pend_claim x) then
      let '(r', ev) := rsend_claim r1 255 i in
      let x' := get_devx r' i in (set_pending r' i (sched_disabled (w64 r')) (x_pend_prod x') (x_pend_conf x'), ev)
    else (r1, []) in
  let '(r3, ev3) := if sched_is_time (w64 r2) (now r2) (x_pend_prod (get_devx r2 i)) then send_product_info r2 i else (r2, []) in
  let '(r4, ev4) := if sched_is_time (w64 r3) (now r3) (x_pend_conf (get_devx r3 i)) then send_config_info r3 i else (r3, []) in
  (r4, ev1 ++ ev2 ++ ev3 ++ ev4).
Definition has_pending (r:rnode) (i:Z) : bool :=
  let x := get_devx r i in let d := get_dev (rn r) i in
  sched_is_enabled (w64 r) (x_pend_claim x) || sched_is_enabled (w64 r) (x_pend_prod x) || sched_is_enabled (w64 r) (x_pend_conf x)
  || sched_is_enabled (w64 r) (d_next_dt_time d).
Fixpoint send_pending_info (k:nat) (r:rnode) (i:Z) : rnode * list event :=
  match k with
  | O => (r, [])
  | S k' =>
    let '(r1, ev1) := if has_pending r i then send_pending_info_dev r i else (r, []) in
    let '(r2, ev2) := send_pending_info k' r1 (i+1) in (r2, ev1 ++ ev2)
  end.

Definition heartbeat_msg (src period sq:Z) : msg :=
  {| m_pri := 7; m_pgn := 126993; m_src := src; m_dst := 255;
     m_data := (if period >? c_MaxHeartbeatInterval then [254; 255] else le_bytes 2 ((period / 10) mod 65536)) ++ [sq; 255; 255; 255; 255; 255]; m_tp := false |}.
Definition send_heartbeat_dev (r:rnode) (i:Z) : rnode * list event :=
  let r := chk_dev r i in
  let '(n1, started) := claim_started (rn r) i in
  let r := with_rn r n1 in
  if started then (r, []) else
  let '(r, t1) := millis64 r in
  let x := get_devx r i in
  if ss_is_time t1 (x_hb x) then
    let '(r, t2) := millis64 r in
    let hb' := ss_update_next t2 (r_sync r) (x_hb x) in
    let r1 := with_devx r i {| x_pend_claim := x_pend_claim x; x_pend_prod := x_pend_prod x; x_pend_conf := x_pend_conf x; x_hb := hb'; x_hb_seq := x_hb_seq x; x_rx := x_rx x |} in
    let '(r2, ev, _) := rsend r1 (heartbeat_msg (dev_src r1 i) (ss_period hb') (x_hb_seq x)) i in
    let x2 := get_devx r2 i in
    let sq := if x_hb_seq x2 + 1 >? 252 then 0 else x_hb_seq x2 + 1 in
    (with_devx r2 i {| x_pend_claim := x_pend_claim x2; x_pend_prod := x_pend_prod x2; x_pend_conf := x_pend_conf x2; x_hb := x_hb x2; x_hb_seq := sq; x_rx := x_rx x2 |}, ev)
  else (r, []).
Fixpoint send_heartbeat (k:nat) (r:rnode) (i:Z) : rnode * list event :=
  match k with
  | O => (r, [])
  | S k' => let '(r1, ev1) := send_heartbeat_dev r i in let '(r2, ev2) := send_heartbeat k' r1 (i+1) in (r2, ev1 ++ ev2)
  end.
(* SetHeartbeatIntervalAndOffset(interval, offset, iDev): special values are resolved per device (D-26 repaired) *)
Fixpoint set_heartbeat_all (k:nat) (r:rnode) (i:Z) (interval offset:Z) : rnode :=
  match k with
  | O => r
  | S k' =>
    let x := get_devx r i in
    let interval1 := if interval =? 4294967295 then ss_period (x_hb x) else if interval =? 4294967294 then c_DefaultHeartbeatInterval else interval in
    let offset1 := if offset =? 4294967295 then ss_offset (x_hb x) else offset in
    if interval1 =? 0 then
      set_heartbeat_all k' (with_devx r i {| x_pend_claim := x_pend_claim x; x_pend_prod := x_pend_prod x; x_pend_conf := x_pend_conf x;
                                              x_hb := {| ss_next := ss_disabled; ss_offset := ss_offset (x_hb x); ss_period := ss_period (x_hb x) |};
                                              x_hb_seq := x_hb_seq x; x_rx := x_rx x |}) (i+1) interval offset
    else
      let interval2 := Z.max 1000 (Z.min interval1 c_MaxHeartbeatInterval) in
      let changed := negb (ss_period (x_hb x) =? interval2) || negb (ss_offset (x_hb x) =? offset1) in
      (* a scheduler disabled with interval 0 keeps its period and offset: it is started again also when the values are the same *)
      let r1 := if changed || (ss_next (x_hb x) =? ss_disabled) then
                  let '(rc, t) := millis64 r in
                  let rc' := with_devx rc i {| x_pend_claim := x_pend_claim x; x_pend_prod := x_pend_prod x; x_pend_conf := x_pend_conf x;
                                                x_hb := ss_update_next t (r_sync rc) {| ss_next := ss_next (x_hb x); ss_offset := offset1; ss_period := interval2 |};
                                                x_hb_seq := x_hb_seq x; x_rx := x_rx x |} in
                  if changed then with_devinfo_changed rc' else rc'
                else r in
      set_heartbeat_all k' r1 (i+1) interval offset
  end.

(* for (i...) if (HeartbeatScheduler.IsEnabled()) HeartbeatScheduler.UpdateNextTime();   (Open(), after SetSyncOffset) *)
Fixpoint resync_heartbeats (k:nat) (r:rnode) (i:Z) : rnode :=
  match k with
  | O => r
  | S k' =>
    let x := get_devx r i in
    let r1 := if ss_next (x_hb x) =? ss_disabled then r
              else if ss_period (x_hb x) =? 0 then
                with_devx r i {| x_pend_claim := x_pend_claim x; x_pend_prod := x_pend_prod x; x_pend_conf := x_pend_conf x;
                                 x_hb := ss_update_next 0 (r_sync r) (x_hb x); x_hb_seq := x_hb_seq x; x_rx := x_rx x |}
              else
                let '(rc, t) := millis64 r in
                with_devx rc i {| x_pend_claim := x_pend_claim x; x_pend_prod := x_pend_prod x; x_pend_conf := x_pend_conf x;
                                  x_hb := ss_update_next t (r_sync rc) (x_hb x); x_hb_seq := x_hb_seq x; x_rx := x_rx x |} in
    resync_heartbeats k' r1 (i+1)
  end.

(* ---------- Open() and ParseMessages ---------- *)
Fixpoint start_claim_all (k:nat) (r:rnode) (i:Z) : rnode * list event :=
  match k with
  | O => (r, [])
  | S k' =>
    let r0 := if dev_src r i =? c_N2kNullCanBusAddress then next_address 300 r i true else r in
    let '(r1, ev1) := rstart_claim r0 i in
    let '(r2, ev2) := start_claim_all k' r1 (i+1) in (r2, ev1 ++ ev2)
  end.
(* returns (node, events, return value of Open()) *)
Definition open_step (r:rnode) : rnode * list event * bool :=
  let st := n_open (rn r) in
  if st =? 3 then (r, [], true) else
  let r0 := if st =? 0 then with_open r 1 (r_open_sched r) else r in
  if n_open (rn r0) =? 1 then
    if negb (sched_is_time (w64 r0) (now r0) (r_open_sched r0)) then (r0, [], false)
    else (with_open r0 2 (sched_from_now (w64 r0) (now r0) 200), [], true)        (* CANOpen() of the harness always succeeds *)
  else
    if sched_is_time (w64 r0) (now r0) (r_open_sched r0) then
      let r1 := with_open r0 3 (r_open_sched r0) in
      let '(r2, ev) := start_claim_all (length (n_devs (rn r1))) r1 0 in
      let '(r2c, tsync) := millis64 r2 in
      let r3 := with_sync r2c tsync in
      let r4 := set_heartbeat_all (length (n_devs (rn r3))) r3 0 c_DefaultHeartbeatInterval 10000 in
      (* a schedule computed before Open() refers to the previous SyncOffset: every enabled heartbeat scheduler is recomputed *)
      let r5 := resync_heartbeats (length (n_devs (rn r4))) r4 0 in
      (r5, ev ++ [EvNote 1], true)
    else (with_rxq r0 [], [], true).                                              (* "read rubbish out from CAN controller" *)

Definition slot_msg (s:slot) : msg :=
  {| m_pri := s_pri s; m_pgn := s_pgn s; m_src := s_src s; m_dst := s_dst s; m_data := firstn (Z.to_nat (s_len s)) (s_data s ++ repeat 255 223); m_tp := s_tp s |}.
Fixpoint rx_loop (k:nat) (r:rnode) : rnode * list event :=
  match k with
  | O => (r, [])
  | S k' =>
    match r_q r with
    | [] => (r, [])
    | f :: rest =>
      let r0 := with_rxq r rest in
      let '(r1, ev1, idx) := rx_frame r0 f in
      if idx <? nslots r1 then
        let r1 := chk_slot r1 idx in
        let s := get_slot r1 idx in
        let '(r2, ev2) := handle_system r1 s in
        (* RunMessageHandlers sees the slot's message as it is after the system handlers ran (they do not modify it) *)
        let r3 := set_slot r2 idx (free_slot (get_slot r2 idx)) in
        let '(r4, ev4) := rx_loop k' r3 in
        (r4, ev1 ++ ev2 ++ [EvDeliver (slot_msg s)] ++ ev4)
      else let '(r4, ev4) := rx_loop k' r1 in (r4, ev1 ++ ev4)
    end
  end.
Definition rflush (r:rnode) : rnode * list event :=
  let '(q, d, ev, _) := flush (n_q (rn r)) (n_drv (rn r)) in (with_rn r (upd_q (rn r) q d), ev).
Definition poll (r:rnode) : rnode * list event :=
  let '(r1, ev0, opened) := if n_open (rn r) =? 3 then (r, [], true) else open_step r in
  if negb (opened && (n_open (rn r1) =? 3)) then (r1, ev0) else
  let '(r2, ev1) := rflush r1 in
  let '(r3, ev2) := send_pending_info (length (n_devs (rn r2))) r2 0 in
  let '(r4, ev3) := rx_loop (Z.to_nat c_MaxReadFramesOnParse) r3 in
  let '(r5, ev4) := if is_active_node (rn r4) then send_heartbeat (length (n_devs (rn r4))) r4 0 else (r4, []) in
  (r5, ev0 ++ ev1 ++ ev2 ++ ev3 ++ ev4).

(* ---------- operations ---------- *)
Inductive rop : Type :=
| RBase (o:op)                         (* Tick, Accept, Send, Flush, StartClaim of part 1 *)
| RPoll
| RRx (f:rxframe)
| RSetHeartbeat (interval offset idev:Z).   (* SetHeartbeatIntervalAndOffset(interval, offset, iDev); iDev < 0 = all devices *)
Definition rstep (r:rnode) (o:rop) : rnode * list event :=
  match o with
  | RBase (OSend i m) =>
    (* an application SendMsg on a node that is not open yet calls Open() first *)
    if n_open (rn r) =? 3 then let '(n', ev) := step (rn r) (OSend i m) in (with_rn r n', ev)
    else let '(r1, ev0, opened) := open_step r in
         if opened && (n_open (rn r1) =? 3) then let '(n', ev) := step (rn r1) (OSend i m) in (with_rn r1 n', ev0 ++ ev)
         else (r1, ev0 ++ [EvResult false])
  | RBase o' => let '(n', ev) := step (rn r) o' in (with_rn r n', ev)
  | RPoll => poll r
  | RRx f => (with_rxq r (r_q r ++ [f]), [])
  | RSetHeartbeat iv off idev =>
    if (iv =? 4294967295) && (off =? 65535) then (r, [])
    else if idev <? 0 then (set_heartbeat_all (length (n_devs (rn r))) r 0 iv off, [])
    else if idev <? dev_count (rn r) then (set_heartbeat_all 1 r idev iv off, [])
    else (r, [])
  end.
Fixpoint rrun (r:rnode) (ops:list rop) : rnode * list (list event) :=
  match ops with
  | [] => (r, [])
  | o :: rest => let '(r1, ev) := rstep r o in let '(r2, evs) := rrun r1 rest in (r2, ev :: evs)
  end.

End WithGroupFunctions.

(* the instance without group function support (N2K_NO_GROUP_FUNCTION_SUPPORT behaviour: PGN 126208 is delivered but not answered) *)
Definition gf_none (r:rnode) (s:slot) : rnode * list event := (r, []).

(* a node as constructed and configured before the first Open(): OpenScheduler.FromNow(0) at construction time t0 *)
Definition cold_devx (w:bool) (rxl:list Z) : devx :=
  {| x_pend_claim := sched_disabled w; x_pend_prod := sched_disabled w; x_pend_conf := sched_disabled w;
     x_hb := {| ss_next := ss_disabled; ss_offset := 0; ss_period := 0 |}; x_hb_seq := 0; x_rx := rxl |}.
Definition cold_node (w:bool) (mode t0 qmax nsl:Z) (pc:pgncfg) (devs:list dev) (rxls:list (list Z)) (cfg:rcfg) : rnode :=
  {| rn := {| n_w64 := w; n_mode := mode; n_open := 0; n_now := t0; n_pgn := pc; n_devs := devs; n_q := sring_new qmax; n_drv := []; n_addr_changed := false |};
     rx_dev := map (cold_devx w) rxls; r_slots := repeat slot0 (Z.to_nat nsl); r_q := []; r_cfg := cfg;
     r_open_sched := sched_from_now w t0 0; r_sync := 0; r_devinfo_changed := false; r_oob := false; r_clk := (0, 0) |}.

(* the harness' prelude for cases that start from an opened node: 700 x (ParseMessages; clock + 1 ms) with an accepting driver,
   heartbeat switched off unless asked for, IsAddressClaimStarted for every device, then the clock is set to the case's origin *)
Fixpoint prelude_polls (gf:rnode -> slot -> rnode * list event) (k:nat) (r:rnode) : rnode :=
  match k with O => r | S k' => let '(r1, _) := poll gf r in prelude_polls gf k' (with_rn r1 (set_now (rn r1) (n_now (rn r1) + 1))) end.
Fixpoint claim_started_all (k:nat) (r:rnode) (i:Z) : rnode :=
  match k with O => r | S k' => claim_started_all k' (with_rn r (fst (claim_started (rn r) i))) (i+1) end.
Definition prelude (gf:rnode -> slot -> rnode * list event) (r:rnode) (hb:bool) (t0:Z) : rnode :=
  let r1 := prelude_polls gf 700 r in
  let r2 := if hb then r1 else fst (rstep gf r1 (RSetHeartbeat 0 0 (-1))) in
  let r3 := claim_started_all (length (n_devs (rn r2))) r2 0 in
  with_rn r3 (set_now (rn r3) t0).
