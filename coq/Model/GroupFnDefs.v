(* Executable model of the NMEA group function handling of tNMEA2000 (PGN 126208) for the default handler set:
     NMEA2000.cpp                        HandleGroupFunction, RespondGroupFunction, IsTxPGN, SetDeviceInformationInstances,
                                         SetInstallationDescription1/2, SendIsoAddressClaim(.,.,2), SendTxPGNList/SendRxPGNList,
                                         SendProductInformation(dest,iDev,UseTP), SendConfigurationInformation(dest,iDev,UseTP), SendHeartbeat(iDev)
     N2kGroupFunction.cpp                Parse, Handle, Parse*Params, default HandleRequest/Command/ReadFields/WriteFields,
                                         GetRequestGroupFunctionTransmissionOrPriorityErrorCode, SetStartAcknowledge, AddAcknowledgeParameter, SendAcknowledge
     N2kGroupFunctionDefaultHandlers.cpp the handlers for PGN 60928, 126464, 126993, 126996, 126998
     N2kMsg.cpp                          GetByte, Get2ByteUInt, Get3ByteUInt, Get4ByteUInt, GetStr (sized), GetVarStr, N2kUCS2ToUTF8 (reading side)
   [gf_lib] is the instance of the Section variable [gf] of Model/NodeRxDefs.v.  Definitions only.

   The model follows the REPAIRED code (see the fix_C09_* patches):
     1  Parse range-checks the function code byte (a byte > 6 is ignored instead of being converted to the enum)
     2  ParseAcknowledgeParams refuses reserved error codes (no observable difference: acknowledges are never answered)
     3  Parse reads the function code with the bounds-checked getter (an empty message has function code 0xff = ignored)
     4  60928 Command: the priority setting is checked before the acknowledge is started (D-28)
     5  126996 Request: fields 4, 5, 6 are compared with software code, model version and serial code (D-17)
     6  string selection fields: the parameter error code states whether THIS field matched *)
From Coq Require Import ZArith List Bool.
From N2kV Require Import Base.ListAux Base.Res Model.CanId Model.Sched Model.PgnClass Model.NodeDefs Model.NodeRxDefs Gen.GenTables Gen.GenConsts.
From N2kV Require Model.TextDefs.
Import ListNotations.
Local Open Scope Z_scope.

(* ---------- tN2kMsg getters on the payload d = Data[0..DataLen) ---------- *)
Definition dlen (d:list Z) : Z := Z.of_nat (length d).
Definition get_byte (d:list Z) (i:Z) : Z * Z := if i <? dlen d then (znth d i 255, i + 1) else (255, i).
Definition get_u16 (d:list Z) (i:Z) : Z * Z :=
  if i + 2 <=? dlen d then (znth d i 0 + 256 * znth d (i+1) 0, i + 2) else (65535, i).
Definition get_u24 (d:list Z) (i:Z) : Z * Z :=
  if i + 3 <=? dlen d then (znth d i 0 + 256 * znth d (i+1) 0 + 65536 * znth d (i+2) 0, i + 3) else (4294967295, i).
Definition get_u32 (d:list Z) (i:Z) : Z * Z :=
  if i + 4 <=? dlen d then (znth d i 0 + 256 * znth d (i+1) 0 + 65536 * znth d (i+2) 0 + 16777216 * znth d (i+3) 0, i + 4) else (4294967295, i).
Definition sub (d:list Z) (i n:Z) : list Z := firstn (Z.to_nat n) (skipn (Z.to_nat i) d).

Fixpoint takewhile (p:Z -> bool) (l:list Z) : list Z :=
  match l with [] => [] | x :: r => if p x then x :: takewhile p r else [] end.
(* the C string left in a buffer by GetStr(.., nulChar=0xff, ..): bytes up to the first 0x00 / 0xff *)
Definition cstr (l:list Z) : list Z := takewhile (fun b => negb (b =? 0) && negb (b =? 255)) l.

(* GetStr(StrBufSize=33, Query, Length=32, 0xff, Index): the string and the new Index; a field that does not fit leaves "" and Index unchanged *)
Definition get_fixstr (d:list Z) (i:Z) : list Z * Z :=
  if i + 32 <=? dlen d then (cstr (sub d i 32), i + 32) else ([], i).

(* N2kUCS2ToUTF8(str, strLen, buf, bufLen=71, 0xff): the bytes written before the terminator (buflen = 70 after "bufLen--") *)
Fixpoint ucs2_utf8 (l:list Z) (ulen buflen:Z) : list Z :=
  match l with
  | lo :: hi :: rest =>
    if ulen <? buflen then
      let u := lo + 256 * hi in
      if u <? 128 then u :: ucs2_utf8 rest (ulen + 1) buflen
      else if u <? 2048 then
        (if ulen + 1 <? buflen then (192 + u / 64) :: (128 + u mod 64) :: ucs2_utf8 rest (ulen + 2) buflen else [])
      else
        (if ulen + 2 <? buflen then (224 + u / 4096) :: (128 + (u / 64) mod 64) :: (128 + u mod 64) :: ucs2_utf8 rest (ulen + 3) buflen else [])
    else []
  | _ => []
  end.

(* GetVarStr(StrBufSize=71, buf, Index) as the handlers use it: the C string left in buf and the new Index (MaxDataLen after an invalid field) *)
Definition get_varstr (d:list Z) (i:Z) : list Z * Z :=
  let '(len, i1) := get_byte d i in
  let '(ty, i2) := get_byte d i1 in
  if (len <=? 2) || (len =? 255) || (ty >? 1) || (i2 >=? dlen d) then
    (if (len =? 2) && (ty <=? 1) then ([], i2) else ([], c_MaxDataLen))
  else
    let n := len - 2 in
    let n := if n + i2 >? dlen d then dlen d - i2 else n in
    if ty =? 1 then (cstr (firstn 70 (sub d i2 n)), i2 + n)
    else (takewhile (fun b => negb (b =? 0)) (ucs2_utf8 (sub d i2 n) 0 70), i2 + n).

(* ---------- device information (NAME) ---------- *)
Definition nm_unique (nm:Z) : Z := nm mod 2097152.
Definition nm_manuf (nm:Z) : Z := (nm / 2097152) mod 2048.
Definition nm_devinst (nm:Z) : Z := (nm / 2^32) mod 256.
Definition nm_function (nm:Z) : Z := (nm / 2^40) mod 256.
Definition nm_class (nm:Z) : Z := ((nm / 2^48) mod 256) / 2.
Definition nm_b7 (nm:Z) : Z := (nm / 2^56) mod 256.
Definition nm_sysinst (nm:Z) : Z := nm_b7 nm mod 16.
Definition nm_industry (nm:Z) : Z := (nm_b7 nm / 16) mod 8.
Definition nm_set_devinst (nm v:Z) : Z := nm - nm_devinst nm * 2^32 + v * 2^32.
Definition nm_set_sysinst (nm v:Z) : Z := nm - nm_sysinst nm * 2^56 + (v mod 16) * 2^56.

(* ---------- product information: the fields of the PGN 126996 payload c_prodinfo ---------- *)
Definition pi_version (p:list Z) : Z := znth p 0 0 + 256 * znth p 1 0.
Definition pi_code (p:list Z) : Z := znth p 2 0 + 256 * znth p 3 0.
Definition pi_model (p:list Z) : list Z := cstr (sub p 4 32).
Definition pi_swcode (p:list Z) : list Z := cstr (sub p 36 32).
Definition pi_modelver (p:list Z) : list Z := cstr (sub p 68 32).
Definition pi_serial (p:list Z) : list Z := cstr (sub p 100 32).
Definition pi_cert (p:list Z) : Z := znth p 132 0.
Definition pi_load (p:list Z) : Z := znth p 133 0.

(* ---------- configuration information ---------- *)
(* SetN2kPGN126998: three AddVarStr(str, 71, vss_SupportUnicode, vsl_UseBytes) (the model of AddVarStr is shared with C16) *)
Definition conf_payload (s1 s2 s3:list Z) : list Z :=
  let m0 := {| TextDefs.mdata := repeat 0 223; TextDefs.mlen := 0 |} in
  match TextDefs.add_var_str m0 s1 71 true false with
  | Ok m1 =>
    match TextDefs.add_var_str m1 s2 71 true false with
    | Ok m2 =>
      match TextDefs.add_var_str m2 s3 71 true false with
      | Ok m3 => firstn (Z.to_nat (TextDefs.mlen m3)) (TextDefs.mdata m3)
      | _ => []
      end
    | _ => []
    end
  | _ => []
  end.

(* the three strings the library holds (InstallationDescription1, InstallationDescription2, ManufacturerInformation) *)
Definition conf_strings (r:rnode) : list Z * list Z * list Z := (c_inst1 (r_cfg r), c_inst2 (r_cfg r), c_manuf (r_cfg r)).
(* SetInstallationDescription1/2: the strings, the payload of the next PGN 126998 and InstallationDescriptionChanged *)
Definition set_conf_strings (r:rnode) (s1 s2:list Z) : rnode :=
  let c := r_cfg r in
  {| rn := rn r; rx_dev := rx_dev r; r_slots := r_slots r; r_q := r_q r;
     r_cfg := {| c_only_known := c_only_known c; c_iso_handler := c_iso_handler c; c_prodinfo := c_prodinfo c;
                 c_confinfo := conf_payload s1 s2 (c_manuf c); c_hb_on := c_hb_on c;
                 c_inst1 := s1; c_inst2 := s2; c_manuf := c_manuf c; c_inst_changed := true |};
     r_open_sched := r_open_sched r; r_sync := r_sync r; r_devinfo_changed := r_devinfo_changed r; r_oob := r_oob r; r_clk := r_clk r |}.

(* ---------- the acknowledge group function ---------- *)
Definition ack_start (pgn pgnec tpec n:Z) : list Z := [2] ++ le_bytes 3 pgn ++ [pgnec + 16 * tpec; n].
(* AddAcknowledgeParameter *)
Definition ack_add (d:list Z) (idx ec:Z) : list Z :=
  if (idx mod 2 =? 0) && (0 <? dlen d) then d ++ [ec + 240]
  else removelast d ++ [last d 0 mod 16 + 16 * ec].
Fixpoint ack_all (k:nat) (d:list Z) (idx ec:Z) : list Z :=
  match k with O => d | S k' => ack_all k' (ack_add d idx ec) (idx + 1) ec end.
Definition gf_msg (dst:Z) (d:list Z) : msg := {| m_pri := 3; m_pgn := 126208; m_src := 15; m_dst := dst; m_data := d; m_tp := false |}.
(* SendMsg(N2kRMsg, iDev) of an acknowledge; AddByte has no bounds check: a payload beyond Data[223] is an overflow *)
Definition send_ack (r:rnode) (i dst:Z) (d:list Z) : rnode * list event :=
  let r := if dlen d >? c_MaxDataLen then set_oob r else r in
  let '(r1, ev, _) := rsend r (gf_msg dst d) i in (r1, ev).
(* GetRequestGroupFunctionTransmissionOrPriorityErrorCode: 0 = acknowledge, 1 = interval/priority not supported *)
Definition tp_code (interval offset:Z) (lim:option (Z * Z * Z)) : Z :=
  let iok := (interval =? 4294967295) || (interval =? 4294967294) || (interval =? 0)
             || match lim with Some (imax, imin, _) => (imin <=? interval) && (interval <=? imax) | None => false end in
  let ook := (offset =? 65535) || (offset =? 0) || match lim with Some (_, _, omax) => offset <=? omax | None => false end in
  if iok && ook then 0 else 1.
Definition prio_code (prio:Z) : Z := if (prio =? 8) || (prio =? 15) || (prio =? 9) then 0 else 1.

(* ---------- things the handlers make the node do ---------- *)
(* SendIsoAddressClaim(0xff, iDev, 2): delayed *)
Definition pend_claim (r:rnode) (i:Z) : rnode :=
  if (i <? 0) || (i >=? dev_count (rn r)) then r else
  let x := get_devx r i in set_pending r i (sched_from_now (w64 r) (now r) 2) (x_pend_prod x) (x_pend_conf x).
Definition pgn_list_msg_tp (r:rnode) (i dst which:Z) (defaults app:list Z) (tp:bool) : msg :=
  let m := pgn_list_msg r i dst which defaults app in
  {| m_pri := m_pri m; m_pgn := m_pgn m; m_src := m_src m; m_dst := m_dst m; m_data := m_data m; m_tp := tp |}.
Definition send_tx_list (r:rnode) (i dst:Z) (tp:bool) : rnode * list event :=
  let r := chk_dev r i in
  let '(r1, ev, _) := rsend r (pgn_list_msg_tp r i dst 0 def_transmit_messages (d_tx (get_dev (rn r) i)) tp) i in (r1, ev).
Definition send_rx_list (r:rnode) (i dst:Z) (tp:bool) : rnode * list event :=
  let r := chk_dev r i in
  let '(r1, ev, _) := rsend r (pgn_list_msg_tp r i dst 1 def_receive_messages (x_rx (get_devx r i)) tp) i in (r1, ev).
Definition send_product_info_to (r:rnode) (i dst:Z) (tp:bool) : rnode * list event :=
  let r := chk_dev r i in
  let m := {| m_pri := 6; m_pgn := 126996; m_src := dev_src r i; m_dst := dst; m_data := c_prodinfo (r_cfg r); m_tp := tp |} in
  let '(r1, ev, ok) := rsend r m i in
  let x := get_devx r1 i in
  (set_pending r1 i (x_pend_claim x) (if ok then sched_disabled (w64 r1) else pend_sched r1 (dev_src r1 i) 8) (x_pend_conf x), ev).
(* the message SendConfigurationInformation builds: PGN 126998, or - when no string at all is configured (empty payload in the model) -
   the ISO acknowledgement "not available" for it *)
Definition config_info_msg (r:rnode) (i dst:Z) (tp:bool) : msg :=
  match c_confinfo (r_cfg r) with
  | [] => {| m_pri := 6; m_pgn := 59392; m_src := dev_src r i; m_dst := dst; m_data := [1; 255; 255; 255; 255] ++ le_bytes 3 126998; m_tp := tp |}
  | _ :: _ => {| m_pri := 6; m_pgn := 126998; m_src := dev_src r i; m_dst := dst; m_data := c_confinfo (r_cfg r); m_tp := tp |}
  end.
Definition send_config_info_to (r:rnode) (i dst:Z) (tp:bool) : rnode * list event :=
  let r := chk_dev r i in
  let m := config_info_msg r i dst tp in
  let '(r1, ev, ok) := rsend r m i in
  let x := get_devx r1 i in
  (set_pending r1 i (x_pend_claim x) (x_pend_prod x) (if ok then sched_disabled (w64 r1) else pend_sched r1 (dev_src r1 i) 10), ev).
(* SendHeartbeat(iDev): sequence counter 0xff; nothing on a node that is not an active bus device *)
Definition send_heartbeat_forced (r:rnode) (i:Z) : rnode * list event :=
  if negb (is_active_node (rn r)) then (r, []) else
  let r := chk_dev r i in
  let '(r1, ev, _) := rsend r (heartbeat_msg (dev_src r i) (ss_period (x_hb (get_devx r i))) 255) i in (r1, ev).
(* SetDeviceInformationInstances(lower, upper, system, iDev); 255 = keep *)
Definition set_instances (r:rnode) (i lower upper si:Z) : rnode :=
  let r := chk_dev r i in
  let nm := d_name (get_dev (rn r) i) in
  let di0 := nm_devinst nm in
  let di1 := if lower =? 255 then di0 else (di0 / 8) * 8 + lower mod 8 in
  let di2 := if upper =? 255 then di1 else di1 mod 8 + (upper mod 32) * 8 in
  let r1 := if di2 =? di0 then r else with_devinfo_changed (set_name r i (nm_set_devinst nm di2)) in
  let nm1 := d_name (get_dev (rn r1) i) in
  let r2 := if negb (si =? 255) && negb (nm_sysinst nm1 =? si) then with_devinfo_changed (set_name r1 i (nm_set_sysinst nm1 si)) else r1 in
  if is_ready_to_send (rn r2) then pend_claim r2 i else r2.

(* ---------- request handlers with selection fields ---------- *)
(* MatchRequestField for numbers: (error code, Match) *)
Definition mnum (v mask cur:Z) (mt:bool) : Z * bool := if Z.land v mask =? cur then (0, mt) else (3, false).
(* for strings *)
Fixpoint leqb (a b:list Z) : bool :=
  match a, b with
  | [], [] => true
  | x :: a', y :: b' => (x =? y) && leqb a' b'
  | _, _ => false
  end.
Definition mstr (q cur:list Z) (mt:bool) : Z * bool := if leqb q cur then (0, mt) else (3, false).

(* one iteration's field decoding: payload, Index, Match -> (parameter error code, Index, Match, invalid field found) *)
Definition fstep := list Z -> Z -> bool -> Z * Z * bool * bool.
Definition invalid_field (i:Z) : Z * Z * bool * bool := (1, i, false, true).

Definition fstep_60928 (nm:Z) : fstep := fun d idx mt =>
  let '(f, i1) := get_byte d idx in
  let num1 (g:list Z -> Z -> Z * Z) (mask cur:Z) := let '(v, i2) := g d i1 in let '(c, m) := mnum v mask cur mt in (c, i2, m, false) in
  if f =? 1 then num1 get_u24 2097151 (nm_unique nm)
  else if f =? 2 then num1 get_u16 2047 (nm_manuf nm)
  else if f =? 3 then num1 get_byte 7 (nm_devinst nm mod 8)
  else if f =? 4 then num1 get_byte 31 ((nm_devinst nm / 8) mod 32)
  else if f =? 5 then num1 get_byte 255 (nm_function nm)
  else if f =? 6 then (0, snd (get_byte d i1), mt, false)
  else if f =? 7 then num1 get_byte 127 (nm_class nm)
  else if f =? 8 then num1 get_byte 15 (nm_sysinst nm)
  else if f =? 9 then num1 get_byte 7 (nm_industry nm)
  else if f =? 10 then (0, snd (get_byte d i1), mt, false)
  else invalid_field i1.

(* 126464: additionally the Tx/Rx selection is threaded through the Index-independent accumulator below *)
Definition fstep_126464 : fstep := fun d idx mt =>
  let '(f, i1) := get_byte d idx in
  if f =? 1 then
    let '(v, i2) := get_byte d i1 in
    if (v =? 0) || (v =? 1) then (0, i2, mt, false) else (3, i2, false, false)
  else invalid_field i1.

Definition fstep_126996 (p:list Z) : fstep := fun d idx mt =>
  let '(f, i1) := get_byte d idx in
  let num1 (g:list Z -> Z -> Z * Z) (mask cur:Z) := let '(v, i2) := g d i1 in let '(c, m) := mnum v mask cur mt in (c, i2, m, false) in
  let str1 (cur:list Z) := let '(q, i2) := get_fixstr d i1 in let '(c, m) := mstr q cur mt in (c, i2, m, false) in
  if f =? 1 then num1 get_u16 65535 (pi_version p)
  else if f =? 2 then num1 get_u16 65535 (pi_code p)
  else if f =? 3 then str1 (pi_model p)
  else if f =? 4 then str1 (pi_swcode p)
  else if f =? 5 then str1 (pi_modelver p)
  else if f =? 6 then str1 (pi_serial p)
  else if f =? 7 then num1 get_byte 255 (pi_cert p)
  else if f =? 8 then num1 get_byte 255 (pi_load p)
  else invalid_field i1.

Definition fstep_126998 (s1 s2 s3:list Z) : fstep := fun d idx mt =>
  let '(f, i1) := get_byte d idx in
  let str1 (cur:list Z) := let '(q, i2) := get_varstr d i1 in let '(c, m) := mstr q cur mt in (c, i2, m, false) in
  if f =? 1 then str1 s1
  else if f =? 2 then str1 s2
  else if f =? 3 then str1 s3
  else invalid_field i1.

(* the loop "for (i=0; i<NumberOfParameterPairs && (MatchFilter || !IsBroadcast(Destination)); i++)": (acknowledge, Match, field values read) ;
   [sel] collects the value byte of every field 1 that was decoded (only PGN 126464 uses it: RespondTxRx = the last one) *)
Fixpoint req_loop (fs:fstep) (k:nat) (d:list Z) (bcast:bool) (i idx:Z) (mt inv:bool) (ack:list Z) (sel:Z) : list Z * bool * Z :=
  match k with
  | O => (ack, mt, sel)
  | S k' =>
    if mt || negb bcast then
      let '(code, idx', mt', inv') := if inv then (2, idx, mt, true) else fs d idx mt in
      let sel' := if negb inv && (fst (get_byte d idx) =? 1) then fst (get_byte d (snd (get_byte d idx))) else sel in
      req_loop fs k' d bcast (i + 1) idx' mt' inv' (ack_add ack i code) sel'
    else (ack, mt, sel)
  end.

Record gmsg := { g_src : Z; g_dst : Z; g_tp : bool; g_d : list Z }.
Definition g_bcast (g:gmsg) : bool := g_dst g =? 255.

(* what the handlers read of the node: the addressed device's NAME and transmit list, product and configuration information *)
Record gf_env := { e_name : Z; e_tx : list Z; e_prod : list Z; e_s1 : list Z; e_s2 : list Z; e_s3 : list Z }.
Definition env_of (r:rnode) (i:Z) : gf_env :=
  {| e_name := d_name (get_dev (rn r) i); e_tx := d_tx (get_dev (rn r) i); e_prod := c_prodinfo (r_cfg r);
     e_s1 := c_inst1 (r_cfg r); e_s2 := c_inst2 (r_cfg r); e_s3 := c_manuf (r_cfg r) |}.

(* what one handler invocation makes the node do *)
Inductive gf_action : Type :=
| GaNone
| GaAck (dst:Z) (ack:list Z)                                  (* SendMsg(Acknowledge) *)
| GaClaim                                                     (* SendIsoAddressClaim(0xff, iDev, 2): the address claim, 2 ms later *)
| GaLists (dst:Z) (tp:bool) (sel:Z)                           (* SendTxPGNList / SendRxPGNList; sel = 0 transmit, 1 receive, 255 both *)
| GaProd (dst:Z) (tp:bool)                                    (* SendProductInformation *)
| GaConf (dst:Z) (tp:bool)                                    (* SendConfigurationInformation *)
| GaHeartbeat (interval offset_ms:Z)                          (* SetHeartbeatIntervalAndOffset + SendHeartbeat(iDev) *)
| GaCmdInst (dst:Z) (ack:list Z) (lower upper sys:Z)          (* SendMsg(Acknowledge); SetDeviceInformationInstances *)
| GaCmdDesc (dst:Z) (ack:list Z) (s1 s2:list Z) (chg:bool).   (* SetInstallationDescription1/2 ...; SendMsg(Acknowledge) *)

(* destination of a requested PGN: the requester, or the global address when the request came as a broadcast ISO-TP message *)
Definition reply_dst (g:gmsg) : Z := if g_tp g && g_bcast g then g_dst g else g_src g.

(* common frame of the four filtering request handlers: [deliver] is the action that sends the requested PGN *)
Definition req_filtered (g:gmsg) (pgn interval offset np:Z) (fs:fstep) (deliver:Z -> gf_action) : gf_action :=
  let pec := tp_code interval offset None in
  let '(ack, mt, sel) := req_loop fs (Z.to_nat np) (g_d g) (g_bcast g) 0 11 true false (ack_start pgn 0 pec np) 255 in
  if mt && (pec =? 0) then deliver sel
  else if g_bcast g then GaNone else GaAck (g_src g) ack.

Definition req_60928 (e:gf_env) (g:gmsg) (interval offset np:Z) : gf_action :=
  req_filtered g 60928 interval offset np (fstep_60928 (e_name e)) (fun _ => GaClaim).
Definition req_126464 (g:gmsg) (interval offset np:Z) : gf_action :=
  req_filtered g 126464 interval offset np fstep_126464 (fun sel => GaLists (reply_dst g) (g_tp g) sel).
Definition req_126996 (e:gf_env) (g:gmsg) (interval offset np:Z) : gf_action :=
  req_filtered g 126996 interval offset np (fstep_126996 (e_prod e)) (fun _ => GaProd (reply_dst g) (g_tp g)).
Definition req_126998 (e:gf_env) (g:gmsg) (interval offset np:Z) : gf_action :=
  req_filtered g 126998 interval offset np (fstep_126998 (e_s1 e) (e_s2 e) (e_s3 e)) (fun _ => GaConf (reply_dst g) (g_tp g)).

(* IsTxPGN *)
Definition is_tx (e:gf_env) (pgn:Z) : bool := existsb (Z.eqb pgn) def_transmit_messages || existsb (Z.eqb pgn) (e_tx e).
(* SendAcknowledge(.., PGN, PGNec, TPec, NumberOfParameterPairs, ParameterErrorCodeForAll) *)
Definition ack_uniform (pgn pgnec tpec n pec:Z) : list Z := ack_all (Z.to_nat n) (ack_start pgn pgnec tpec n) 0 pec.

(* tN2kGroupFunctionHandler::HandleRequest (default) *)
Definition req_default (e:gf_env) (g:gmsg) (pgn interval offset np:Z) : gf_action :=
  let tor := tp_code interval offset None in
  let '(pgnec, tor') := if is_tx e pgn then (if tor =? 1 then (0, 1) else (2, 0)) else (1, 0) in
  if g_bcast g then GaNone else GaAck (g_src g) (ack_uniform pgn pgnec tor' np 0).

(* heartbeat *)
Definition req_126993 (e:gf_env) (g:gmsg) (interval offset np:Z) : gf_action :=
  let pec0 := tp_code interval offset (Some (60000, 1000, 6000)) in
  let pec := if interval =? 0 then 1 else pec0 in
  if np =? 0 then
    if (interval =? 4294967295) && (offset =? 65535) then req_default e g 126993 interval offset np
    else if pec =? 0 then GaHeartbeat interval (if (offset =? 65535) || (offset =? 0) then 4294967295 else offset * 10)
    else if g_bcast g then GaNone else GaAck (g_src g) (ack_uniform 126993 0 pec 0 0)
  else if g_bcast g then GaNone else GaAck (g_src g) (ack_uniform 126993 0 pec np 5).

(* ---------- command handlers ---------- *)
Definition cmd_default (e:gf_env) (g:gmsg) (pgn prio np:Z) : gf_action :=
  GaAck (g_src g) (ack_uniform pgn (if is_tx e pgn then 0 else 1) (prio_code prio) np 0).
Definition cmd_126993 (g:gmsg) (pgn prio np:Z) : gf_action :=
  GaAck (g_src g) (ack_uniform pgn 1 (prio_code prio) np 0).

(* PGN 60928: (acknowledge, lower, upper, system instance) *)
Fixpoint cmd_60928_loop (k:nat) (d:list Z) (i idx:Z) (ack:list Z) (lo up si:Z) : list Z * Z * Z * Z :=
  match k with
  | O => (ack, lo, up, si)
  | S k' =>
    let '(f, i1) := get_byte d idx in
    if f =? 3 then let '(v, i2) := get_byte d i1 in cmd_60928_loop k' d (i + 1) i2 (ack_add ack i 0) (v mod 8) up si
    else if f =? 4 then let '(v, i2) := get_byte d i1 in cmd_60928_loop k' d (i + 1) i2 (ack_add ack i 0) lo (v mod 32) si
    else if f =? 8 then let '(v, i2) := get_byte d i1 in cmd_60928_loop k' d (i + 1) i2 (ack_add ack i 0) lo up (v mod 16)
    else cmd_60928_loop k' d (i + 1) i1 (ack_add ack i 1) lo up si
  end.
Definition cmd_60928 (g:gmsg) (prio np:Z) : gf_action :=
  let pec := if prio =? 8 then 0 else 1 in
  let '(ack, lo, up, si) := cmd_60928_loop (Z.to_nat np) (g_d g) 0 6 (ack_start 60928 0 pec np) 255 255 255 in
  GaCmdInst (g_src g) ack lo up si.

(* PGN 126998: (acknowledge, description 1, description 2, anything set) *)
Fixpoint cmd_126998_loop (k:nat) (d:list Z) (i idx:Z) (ack:list Z) (s1 s2:list Z) (chg:bool) : list Z * list Z * list Z * bool :=
  match k with
  | O => (ack, s1, s2, chg)
  | S k' =>
    let '(f, i1) := get_byte d idx in
    if f =? 1 then let '(q, i2) := get_varstr d i1 in cmd_126998_loop k' d (i + 1) i2 (ack_add ack i 0) q s2 true
    else if f =? 2 then let '(q, i2) := get_varstr d i1 in cmd_126998_loop k' d (i + 1) i2 (ack_add ack i 0) s1 q true
    else cmd_126998_loop k' d (i + 1) i1 (ack_add ack i 1) s1 s2 chg
  end.
Definition cmd_126998 (e:gf_env) (g:gmsg) (prio np:Z) : gf_action :=
  let '(ack, s1', s2', chg) := cmd_126998_loop (Z.to_nat np) (g_d g) 0 6 (ack_start 126998 0 (prio_code prio) np) (e_s1 e) (e_s2 e) false in
  GaCmdDesc (g_src g) ack s1' s2' chg.

(* HandleReadFields / HandleWriteFields (default, no handler overrides them) *)
Definition rw_default (e:gf_env) (g:gmsg) (pgn np:Z) : gf_action :=
  GaAck (g_src g) (ack_uniform pgn (if is_tx e pgn then 6 else 1) 0 np 0).

(* ---------- tN2kGroupFunctionHandler::Handle behind RespondGroupFunction: the decision ---------- *)
Definition has_handler (pgn:Z) : bool := (pgn =? 60928) || (pgn =? 126464) || (pgn =? 126993) || (pgn =? 126996) || (pgn =? 126998).

Definition decide_fc (e:gf_env) (g:gmsg) (fc pgn:Z) : gf_action :=
  let d := g_d g in
  if fc =? 0 then
    let '(interval, i1) := get_u32 d 4 in
    let '(offset, i2) := get_u16 d i1 in
    let '(np, _) := get_byte d i2 in
    if pgn =? 60928 then req_60928 e g interval offset np
    else if pgn =? 126464 then req_126464 g interval offset np
    else if pgn =? 126993 then req_126993 e g interval offset np
    else if pgn =? 126996 then req_126996 e g interval offset np
    else if pgn =? 126998 then req_126998 e g interval offset np
    else req_default e g pgn interval offset np
  else if fc =? 1 then
    if g_bcast g then GaNone else
    let '(b, i1) := get_byte d 4 in
    let prio := b mod 16 in
    let '(np, _) := get_byte d i1 in
    if pgn =? 60928 then cmd_60928 g prio np
    else if pgn =? 126993 then cmd_126993 g pgn prio np
    else if pgn =? 126998 then cmd_126998 e g prio np
    else cmd_default e g pgn prio np
  else if (fc =? 3) || (fc =? 5) then
    if g_bcast g then GaNone else
    let propr := if has_handler pgn then false else is_proprietary pgn in
    let i1 := if propr then snd (get_u16 d 4) else 4 in
    let '(_, i2) := get_byte d i1 in           (* UniqueID *)
    let '(_, i3) := get_byte d i2 in           (* NumberOfSelectionPairs *)
    let '(np, _) := get_byte d i3 in
    rw_default e g pgn np
  else GaNone.                                 (* Acknowledge, Read reply, Write reply *)

(* Parse + dispatch: function codes above 6 and empty messages (0xff) are not group functions we know *)
Definition gf_decide (e:gf_env) (g:gmsg) : gf_action :=
  let fc := fst (get_byte (g_d g) 0) in
  if fc >? 6 then GaNone else decide_fc e g fc (fst (get_u24 (g_d g) 1)).

(* ---------- the execution of an action on the node ---------- *)
Definition gf_exec (r:rnode) (i:Z) (a:gf_action) : rnode * list event :=
  match a with
  | GaNone => (r, [])
  | GaAck dst ack => send_ack r i dst ack
  | GaClaim => (pend_claim r i, [])
  | GaLists dst tp sel =>
    let '(r1, ev1) := if (sel =? 0) || (sel =? 255) then send_tx_list r i dst tp else (r, []) in
    let '(r2, ev2) := if (sel =? 1) || (sel =? 255) then send_rx_list r1 i dst tp else (r1, []) in
    (r2, ev1 ++ ev2)
  | GaProd dst tp => send_product_info_to r i dst tp
  | GaConf dst tp => send_config_info_to r i dst tp
  | GaHeartbeat interval off =>
    let r1 := if (interval =? 4294967295) && (off =? 65535) then r else set_heartbeat_all 1 r i interval off in
    send_heartbeat_forced r1 i
  | GaCmdInst dst ack lo up si => let '(r1, ev) := send_ack r i dst ack in (set_instances r1 i lo up si, ev)
  | GaCmdDesc dst ack s1 s2 chg => send_ack (if chg then set_conf_strings r s1 s2 else r) i dst ack
  end.

Definition respond_gf (r:rnode) (g:gmsg) (i:Z) : rnode * list event :=
  let r := chk_dev r i in gf_exec r i (gf_decide (env_of r i) g).
Fixpoint respond_gf_all (k:nat) (r:rnode) (g:gmsg) (i:Z) : rnode * list event :=
  match k with
  | O => (r, [])
  | S k' => let '(r1, ev1) := respond_gf r g i in
            let '(r2, ev2) := respond_gf_all k' r1 g (i + 1) in (r2, ev1 ++ ev2)
  end.

(* the payload the getters see: Data[0..DataLen) *)
Definition gf_payload (s:slot) : list Z := firstn (Z.to_nat (s_len s)) (s_data s).
Definition gmsg_of (s:slot) : gmsg := {| g_src := s_src s; g_dst := s_dst s; g_tp := s_tp s; g_d := gf_payload s |}.

(* ---------- HandleGroupFunction ---------- *)
Definition gf_lib (r:rnode) (s:slot) : rnode * list event :=
  let i := find_source_device r (s_dst s) in
  if negb (s_dst s =? 255) && (i =? -1) then (r, []) else
  if s_dst s =? 255 then respond_gf_all (length (n_devs (rn r))) r (gmsg_of s) 0
  else respond_gf r (gmsg_of s) i.
