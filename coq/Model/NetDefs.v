(* Executable model of a small NMEA 2000 network for the address-claim property (C03): several library nodes (the frozen model of
   Model/NodeDefs.v + Model/NodeRxDefs.v, stepped through [poll]) and foreign reference nodes that follow ISO 11783-5, on a bus without
   loop-back: every frame a participant's driver accepts is appended to the inbox of every OTHER started participant.
   Mirrors harness/h_net.cpp operation for operation.  Definitions only. *)
From Coq Require Import ZArith List Bool.
From N2kV Require Import Base.ListAux Model.CanId Model.Sched Model.PgnClass Model.NodeDefs Model.NodeRxDefs Gen.GenTables Gen.GenConsts.
Import ListNotations.
Local Open Scope Z_scope.

(* ---------- foreign reference node (ISO 11783-5, self-configurable address) ---------- *)
Record fnode := { fn_addr : Z;      (* current address, 254 = none / cannot claim *)
                  fn_pref : Z;      (* preferred address *)
                  fn_end : Z;       (* last address tried before giving up *)
                  fn_name : Z }.
Definition fn_claim_frame (f:fnode) : rxframe :=
  {| r_id := to_can_id 6 c_N2kPGNIsoAddressClaim (fn_addr f) 255; r_len := 8; r_buf := le_bytes 8 (fn_name f) |}.
Definition fn_with_addr (f:fnode) (a e:Z) : fnode := {| fn_addr := a; fn_pref := fn_pref f; fn_end := e; fn_name := fn_name f |}.
(* power-up: claim the preferred address *)
Definition fn_start (f:fnode) : fnode * list rxframe :=
  let f1 := fn_with_addr f (fn_pref f) (claim_end_of (fn_pref f)) in (f1, [fn_claim_frame f1]).
(* a received frame: only a well-formed claim for the address we hold matters; lower NAME wins *)
Definition fn_react (f:fnode) (x:rxframe) : fnode * list rxframe :=
  let '(_, pgn, src, _) := can_id_to_n2k (r_id x) in
  if negb ((pgn =? c_N2kPGNIsoAddressClaim) && (r_len x =? 8) && (src =? fn_addr f) && (fn_addr f <=? c_N2kMaxCanBusAddress)) then (f, []) else
  let n := of_le8 (r_buf x) in
  if fn_name f <? n then (f, [fn_claim_frame f])                               (* defend *)
  else if n <? fn_name f then                                                  (* lost: next address, or cannot-claim when all were tried *)
    let a := if fn_addr f =? fn_end f then c_N2kNullCanBusAddress
             else if fn_addr f + 1 >? c_N2kMaxCanBusAddress then 0 else fn_addr f + 1 in
    let f1 := fn_with_addr f a (fn_end f) in (f1, [fn_claim_frame f1])
  else (f, []).

(* ---------- participants and the bus ---------- *)
Inductive pkind : Type := PLib (r:rnode) | PRef (f:fnode).
Record part := { p_on : bool; p_kind : pkind; p_inbox : list rxframe }.
Record net := { nt_parts : list part;
                nt_clk : Z * Z;   (* the process-wide statics of N2kMillis64() in the 32-bit build *)
                nt_sync : Z       (* tN2kSyncScheduler::SyncOffset, a static member: shared by all tNMEA2000 objects of one process (the harness) *) }.

Inductive nevent : Type :=
| NTx (i:Z) (f:rxframe)          (* participant i put this frame on the bus *)
| NAc (i:Z) (b:bool).            (* ReadResetAddressChanged() of library node i returned b *)

Definition indexed {A} (l:list A) : list (Z * A) := combine (map Z.of_nat (seq 0 (length l))) l.
Definition with_inbox (p:part) (q:list rxframe) : part := {| p_on := p_on p; p_kind := p_kind p; p_inbox := q |}.
Definition bcast (ps:list part) (i:Z) (fs:list rxframe) : list part :=
  map (fun ip => if (fst ip =? i) || negb (p_on (snd ip)) then snd ip else with_inbox (snd ip) (p_inbox (snd ip) ++ fs)) (indexed ps).
Definition to_all (ps:list part) (fs:list rxframe) : list part := bcast ps (-1) fs.

(* the frames of a list of driver events: accepted CANSendFrame calls; the receiver's buffer bytes beyond the length are 0 *)
Definition frame_of_tx (id len:Z) (data:list Z) : rxframe := {| r_id := id; r_len := len; r_buf := data ++ repeat 0 (8 - length data) |}.
Fixpoint frames_of (evs:list event) : list rxframe :=
  match evs with
  | [] => []
  | EvTx id len data true :: r => frame_of_tx id len data :: frames_of r
  | _ :: r => frames_of r
  end.

Definition get_part (nt:net) (i:Z) : option part := if i <? 0 then None else nth_error (nt_parts nt) (Z.to_nat i).
Definition set_part (nt:net) (i:Z) (p:part) (clk:Z*Z) : net := {| nt_parts := zset (nt_parts nt) i p; nt_clk := clk; nt_sync := nt_sync nt |}.
Definition set_sync (nt:net) (s:Z) : net := {| nt_parts := nt_parts nt; nt_clk := nt_clk nt; nt_sync := s |}.
Definition emit (nt:net) (i:Z) (fs:list rxframe) : net * list nevent :=
  ({| nt_parts := bcast (nt_parts nt) i fs; nt_clk := nt_clk nt; nt_sync := nt_sync nt |}, map (NTx i) fs).

Definition reset_addr_changed (r:rnode) : rnode :=
  let n := rn r in
  with_rn r {| n_w64 := n_w64 n; n_mode := n_mode n; n_open := n_open n; n_now := n_now n; n_pgn := n_pgn n; n_devs := n_devs n; n_q := n_q n; n_drv := n_drv n;
               n_addr_changed := false |}.
Definition advance (dt:Z) (p:part) : part :=
  match p_kind p with
  | PLib r => {| p_on := p_on p; p_kind := PLib (with_rn r (set_now (rn r) (n_now (rn r) + dt))); p_inbox := p_inbox p |}
  | PRef _ => p
  end.
(* the commanded-address message (PGN 65240, 9 bytes: NAME, new address) as a BAM session from the tool address [src] *)
Definition cmd_frames (name addr src:Z) : list rxframe :=
  let nm := le_bytes 8 name in
  [ {| r_id := to_can_id 7 c_TP_CM src 255; r_len := 8; r_buf := [c_TP_CM_BAM; 9; 0; 2; 255; 216; 254; 0] |};
    {| r_id := to_can_id 7 c_TP_DT src 255; r_len := 8; r_buf := 1 :: firstn 7 nm |};
    {| r_id := to_can_id 7 c_TP_DT src 255; r_len := 8; r_buf := [2; nth 7 nm 0; addr; 255; 255; 255; 255; 255] |} ].

Inductive nop : Type :=
| NStart (i:Z)                   (* participant i is switched on: a library node starts calling ParseMessages, a reference node claims *)
| NStep (i k:Z)                  (* participant i processes the k-th frame pending for it *)
| NTick (dt:Z)                   (* the clock advances, then every started library node runs ParseMessages *)
| NCmd (name addr src:Z)         (* a foreign tool at [src] broadcasts a commanded address for [name] *)
| NAck (i:Z)                     (* the application of library node i reads and resets the address-changed indication *)
| NRestart (i:Z)                 (* the application of library node i calls Restart() *)
| NRaw (f:rxframe).              (* an arbitrary frame from outside reaches every started participant *)

Section WithGroupFunctions.
Variable gf : rnode -> slot -> rnode * list event.

Definition lib_poll (r:rnode) (clk:Z*Z) (sync:Z) : rnode * list event * (Z*Z) * Z :=
  let '(r1, ev) := poll gf (with_sync (with_clk r clk) sync) in (r1, ev, r_clk r1, r_sync r1).

(* ParseMessages of participant i (if it is a started library node), frames onto the bus *)
Definition poll_part (nt:net) (i:Z) : net * list nevent :=
  match get_part nt i with
  | Some p =>
    match p_kind p with
    | PLib r => if p_on p then
                  let '(r1, ev, clk, sync) := lib_poll r (nt_clk nt) (nt_sync nt) in
                  emit (set_sync (set_part nt i {| p_on := true; p_kind := PLib r1; p_inbox := p_inbox p |} clk) sync) i (frames_of ev)
                else (nt, [])
    | PRef _ => (nt, [])
    end
  | None => (nt, [])
  end.
Fixpoint tick_polls (k:nat) (i:Z) (nt:net) : net * list nevent :=
  match k with
  | O => (nt, [])
  | S k' => let '(nt1, ev1) := poll_part nt i in let '(nt2, ev2) := tick_polls k' (i+1) nt1 in (nt2, ev1 ++ ev2)
  end.

Definition net_step (nt:net) (o:nop) : net * list nevent :=
  match o with
  | NStart i =>
    match get_part nt i with
    | Some p =>
      if p_on p then (nt, []) else
      match p_kind p with
      | PLib r => poll_part (set_part nt i {| p_on := true; p_kind := PLib r; p_inbox := [] |} (nt_clk nt)) i
      | PRef f => let '(f1, fs) := fn_start f in emit (set_part nt i {| p_on := true; p_kind := PRef f1; p_inbox := [] |} (nt_clk nt)) i fs
      end
    | None => (nt, [])
    end
  | NStep i k =>
    match get_part nt i with
    | Some p =>
      if negb (p_on p) || (k <? 0) then (nt, []) else
      match nth_error (p_inbox p) (Z.to_nat k) with
      | Some x =>
        let rest := firstn (Z.to_nat k) (p_inbox p) ++ skipn (S (Z.to_nat k)) (p_inbox p) in
        match p_kind p with
        | PLib r => poll_part (set_part nt i {| p_on := true; p_kind := PLib (with_rxq r (r_q r ++ [x])); p_inbox := rest |} (nt_clk nt)) i
        | PRef f => let '(f1, fs) := fn_react f x in emit (set_part nt i {| p_on := true; p_kind := PRef f1; p_inbox := rest |} (nt_clk nt)) i fs
        end
      | None => (nt, [])
      end
    | None => (nt, [])
    end
  | NTick dt =>
    let nt1 := {| nt_parts := map (advance dt) (nt_parts nt); nt_clk := nt_clk nt; nt_sync := nt_sync nt |} in
    tick_polls (length (nt_parts nt1)) 0 nt1
  | NCmd name addr src => ({| nt_parts := to_all (nt_parts nt) (cmd_frames name addr src); nt_clk := nt_clk nt; nt_sync := nt_sync nt |}, [])
  | NAck i =>
    match get_part nt i with
    | Some p =>
      match p_kind p with
      | PLib r => (set_part nt i {| p_on := p_on p; p_kind := PLib (reset_addr_changed r); p_inbox := p_inbox p |} (nt_clk nt), [NAc i (n_addr_changed (rn r))])
      | PRef _ => (nt, [])
      end
    | None => (nt, [])
    end
  | NRestart i =>
    match get_part nt i with
    | Some p =>
      match p_kind p with
      | PLib r => if p_on p then
                    let '(r1, ev) := start_claim_all (length (n_devs (rn r))) r 0 in
                    emit (set_part nt i {| p_on := true; p_kind := PLib r1; p_inbox := p_inbox p |} (nt_clk nt)) i (frames_of ev)
                  else (nt, [])
      | PRef _ => (nt, [])
      end
    | None => (nt, [])
    end
  | NRaw f => ({| nt_parts := to_all (nt_parts nt) [f]; nt_clk := nt_clk nt; nt_sync := nt_sync nt |}, [])
  end.

Fixpoint net_run (nt:net) (ops:list nop) : net * list (list nevent) :=
  match ops with
  | [] => (nt, [])
  | o :: rest => let '(nt1, ev) := net_step nt o in let '(nt2, evs) := net_run nt1 rest in (nt2, ev :: evs)
  end.
End WithGroupFunctions.

(* construction: every participant is created (not started) at the clock origin *)
Definition mk_fnode (pref name:Z) : fnode := {| fn_addr := c_N2kNullCanBusAddress; fn_pref := pref; fn_end := claim_end_of pref; fn_name := name |}.
Definition mk_part (k:pkind) : part := {| p_on := false; p_kind := k; p_inbox := [] |}.
Definition mk_net (ks:list pkind) : net := {| nt_parts := map mk_part ks; nt_clk := (0, 0); nt_sync := 0 |}.

(* observations used by the driver and by the statements *)
Definition part_addrs (p:part) : list Z :=
  match p_kind p with PLib r => map d_src (n_devs (rn r)) | PRef f => [fn_addr f] end.
Definition part_names (p:part) : list Z :=
  match p_kind p with PLib r => map d_name (n_devs (rn r)) | PRef f => [fn_name f] end.
