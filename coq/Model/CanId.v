(* N2ktoCanID and CanIdToN2k of src/NMEA2000.cpp.  unsigned long is 64 bit on the modelled build, so nothing wraps for PGN < 2^32. *)
From Coq Require Import ZArith Bool.
Local Open Scope Z_scope.

Definition u8 (x:Z) : Z := x mod 256.

Definition to_can_id (prio pgn src dst:Z) : Z :=
  let pf := u8 (Z.shiftr pgn 8) in
  if pf <? 240 then
    if negb (Z.land pgn 255 =? 0) then 0
    else Z.lor (Z.lor (Z.lor (Z.shiftl (Z.land prio 7) 26) (Z.shiftl pgn 8)) (Z.shiftl dst 8)) src
  else Z.lor (Z.lor (Z.shiftl (Z.land prio 7) 26) (Z.shiftl pgn 8)) src.

(* returns (prio, pgn, src, dst) *)
Definition can_id_to_n2k (id:Z) : Z * Z * Z * Z :=
  let pf := u8 (Z.shiftr id 16) in
  let ps := u8 (Z.shiftr id 8) in
  let dp := Z.land (u8 (Z.shiftr id 24)) 1 in
  let src := u8 id in
  let prio := Z.land (Z.shiftr id 26) 7 in
  if pf <? 240 then (prio, Z.lor (Z.shiftl dp 16) (Z.shiftl pf 8), src, ps)
  else (prio, Z.lor (Z.lor (Z.shiftl dp 16) (Z.shiftl pf 8)) ps, src, 255).
