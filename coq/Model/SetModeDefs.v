(* tNMEA2000::SetMode(mode, source): the address device i of the node starts with.  Successive addresses from a valid source wrap to 0
   after 251 (N2kMaxCanBusAddress); a source above 251 is stored as it is (uint8_t arithmetic).  Definitions only. *)
From Coq Require Import ZArith Bool.
From N2kV Require Import Gen.GenConsts.
Local Open Scope Z_scope.
Local Open Scope bool_scope.

Definition set_mode_src (source i:Z) : Z :=
  let s := source + i in
  if (source <=? c_N2kMaxCanBusAddress) && (c_N2kMaxCanBusAddress <? s) then s - (c_N2kMaxCanBusAddress + 1) else s mod 256.
