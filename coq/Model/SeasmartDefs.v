(* Executable model of src/Seasmart.cpp (N2kToSeasmart, SeasmartToN2k and their static helpers).
   Definitions only - proofs live in Proofs/SeasmartProofs.v so that the model still runs when a proof breaks.

   A C string is the list of its bytes before the terminating NUL (each 1..255); reading index [length s] yields
   the terminator 0, reading beyond it is OOB.  LP64 build (strtol of 8 hex digits does not saturate). *)
From Coq Require Import ZArith List Bool.
From N2kV Require Import Base.Res.
Import ListNotations ResNotations.
Local Open Scope Z_scope.

(* ---------- checked string access ---------- *)
Definition rd (s:list Z) (i:Z) : res Z :=
  if i <? 0 then OOB else
  match nth_error s (Z.to_nat i) with
  | Some b => Ok b
  | None => if i =? Z.of_nat (length s) then Ok 0 else OOB
  end.

(* strlen(s+p): needs p to be inside the string (terminator included) *)
Definition strlen_from (s:list Z) (p:Z) : res Z :=
  if (0 <=? p) && (p <=? Z.of_nat (length s)) then Ok (Z.of_nat (length s) - p) else OOB.

(* isxdigit in the C locale; chars >= 0x80 are negative as (signed) char and not hex digits *)
Definition is_xdigit (c:Z) : bool :=
  ((48 <=? c) && (c <=? 57)) || ((65 <=? c) && (c <=? 70)) || ((97 <=? c) && (c <=? 102)).
Definition hexval (c:Z) : Z := if c <=? 57 then c - 48 else if c <=? 70 then c - 55 else c - 87.

Fixpoint all_xdigit (s:list Z) (p:Z) (n:nat) : res bool :=
  match n with
  | O => Ok true
  | S k => c <- rd s p ;; if is_xdigit c then all_xdigit s (p+1) k else Ok false
  end.
Fixpoint hexnum (s:list Z) (p:Z) (n:nat) (acc:Z) : res Z :=
  match n with
  | O => Ok acc
  | S k => c <- rd s p ;; hexnum s (p+1) k (acc*16 + hexval c)
  end.

(* readNHexByte(s+p, n, value): strlen(s+p) < 2n -> false; any non-hex digit -> false; else strtol *)
Definition read_n_hex (s:list Z) (p:Z) (n:nat) : res (option Z) :=
  l <- strlen_from s p ;;
  if l <? 2 * Z.of_nat n then Ok None else
  ok <- all_xdigit s p (2*n) ;;
  if ok then (v <- hexnum s p (2*n) 0 ;; Ok (Some v)) else Ok None.

(* strncmp("$PCDIN,", s, 7) == 0 : compares at most 7 chars, stops at the first difference or NUL *)
Definition pcdin : list Z := [36;80;67;68;73;78;44].
Fixpoint prefix_go (s:list Z) (pat:list Z) (i:Z) : res bool :=
  match pat with
  | [] => Ok true
  | c::pat' => b <- rd s i ;; if b =? c then (if b =? 0 then Ok true else prefix_go s pat' (i+1)) else Ok false
  end.
Definition prefix7 (s:list Z) : res bool := prefix_go s pcdin 0.

(* while (s[dataLen] != 0 && s[dataLen] != '*') dataLen++ *)
Fixpoint scan_data (s:list Z) (p:Z) (fuel:nat) (n:Z) : res Z :=
  match fuel with
  | O => Fuel
  | S k => c <- rd s (p+n) ;; if (c =? 0) || (c =? 42) then Ok n else scan_data s p k (n+1)
  end.

(* nmea_compute_checksum: xor of chars from index 1 until '*' (no terminator test in the code) *)
Fixpoint checksum (s:list Z) (i:Z) (fuel:nat) (acc:Z) : res Z :=
  match fuel with
  | O => Fuel
  | S k => c <- rd s i ;; if c =? 42 then Ok acc else checksum s (i+1) k (Z.lxor acc c)
  end.

Fixpoint read_bytes (s:list Z) (p:Z) (n:nat) : res (option (list Z)) :=
  match n with
  | O => Ok (Some [])
  | S k =>
    r <- read_n_hex s p 1 ;;
    match r with
    | None => Ok None
    | Some b => t <- read_bytes s (p+2) k ;; match t with None => Ok None | Some l => Ok (Some (b::l)) end
    end
  end.

Record smsg := { pgn:Z; ts:Z; src:Z; data:list Z }.

(* expect a given character at index i (the separator tests added by the fix) *)
Definition expect (s:list Z) (i:Z) (ch:Z) : res bool := c <- rd s i ;; Ok (c =? ch).

Definition import (s:list Z) : res (option smsg) :=
  let fuel := S (S (length s)) in
  ok <- prefix7 s ;; if negb ok then Ok None else
  h <- read_n_hex s 7 1 ;; match h with None => Ok None | Some ph =>
  l <- read_n_hex s 9 2 ;; match l with None => Ok None | Some pl =>
  e1 <- expect s 13 44 ;; if negb e1 then Ok None else
  t <- read_n_hex s 14 4 ;; match t with None => Ok None | Some tsv =>
  e2 <- expect s 22 44 ;; if negb e2 then Ok None else
  so <- read_n_hex s 23 1 ;; match so with None => Ok None | Some sv =>
  e3 <- expect s 25 44 ;; if negb e3 then Ok None else
  n <- scan_data s 26 fuel 0 ;;
  if negb (n mod 2 =? 0) then Ok None else
  let dl := n / 2 in
  if dl >? 223 then Ok None else
  bs <- read_bytes s 26 (Z.to_nat dl) ;; match bs with None => Ok None | Some bytes =>
  e4 <- expect s (26 + 2*dl) 42 ;; if negb e4 then Ok None else
  c <- read_n_hex s (26 + 2*dl + 1) 1 ;; match c with None => Ok None | Some cs =>
  k <- checksum s 1 (S fuel) 0 ;;
  if cs =? k mod 256 then Ok (Some {| pgn := ph*65536 + pl; ts := tsv; src := sv; data := bytes |}) else Ok None
  end end end end end end.

(* ---------- export ---------- *)
Definition hexdigit (v:Z) : Z := if v <? 10 then 48 + v else 55 + v.      (* "0123456789ABCDEF"[v] *)
Definition hex_byte (b:Z) : list Z := [hexdigit (b / 16 mod 16); hexdigit (b mod 16)].
Fixpoint hex_be (n:nat) (v:Z) : list Z :=       (* n bytes, most significant first *)
  match n with O => [] | S k => hex_be k (v / 256) ++ hex_byte (v mod 256) end.
Definition xor_all (l:list Z) : Z := fold_left Z.lxor l 0.

Definition sentence_body (m:smsg) : list Z :=
  pcdin ++ hex_be 3 (pgn m) ++ [44] ++ hex_be 4 (ts m) ++ [44] ++ hex_be 1 (src m) ++ [44] ++ flat_map hex_byte (data m).
Definition sentence (m:smsg) : list Z :=
  let b := sentence_body m in b ++ [42] ++ hex_byte (xor_all (tl b) mod 256).

(* N2kToSeasmart(msg, ts, buffer, size): what is written into the buffer (NUL included) and the return value;
   None = nothing written, return 0.  A write beyond [size] would be OOB. *)
Definition export (m:smsg) (size:Z) : res (option (list Z) * Z) :=
  let need := 30 + 2 * Z.of_nat (length (data m)) in
  if size <? need then Ok (None, 0) else
  let out := sentence m ++ [0] in
  if Z.of_nat (length out) <=? size then Ok (Some out, Z.of_nat (length out) - 1) else OOB.
