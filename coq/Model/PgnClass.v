(* PGN classification of src/NMEA2000.cpp (IsFastPacketPGN, CheckKnownMessage) over the tables regenerated from the source
   (Gen/GenTables.v) and the application's lists (group 0 replaces the defaults, group 1 extends). *)
From Coq Require Import ZArith List Bool.
From N2kV Require Import Gen.GenTables.
Import ListNotations.
Local Open Scope Z_scope.

Record pgncfg := { sf0 : option (list Z); sf1 : option (list Z); fp0 : option (list Z); fp1 : option (list Z) }.
Definition no_lists : pgncfg := {| sf0 := None; sf1 := None; fp0 := None; fp1 := None |}.

(* for (i=0; L[i]!=PGN && L[i]!=0; i++); return L[i]==PGN  -- the terminating 0 itself matches PGN 0 *)
Definition in_list (l:option (list Z)) (p:Z) : bool :=
  match l with None => false | Some v => existsb (Z.eqb p) v || (p =? 0) end.
Definition is_none {A} (o:option A) : bool := match o with None => true | Some _ => false end.

Definition is_fast_packet_pgn (c:pgncfg) (p:Z) : bool :=
  is_fast_packet_system p || is_mandatory_fast_packet p || (is_none (fp0 c) && is_default_fast_packet p)
  || is_proprietary_fast_packet p || in_list (fp0 c) p || in_list (fp1 c) p.

(* CheckKnownMessage -> (known, system, fastpacket) *)
Definition check_known (c:pgncfg) (p:Z) : bool * bool * bool :=
  if p =? 0 then (false, false, false) else
  if is_none (sf0 c) && is_default_single_frame p then (true, false, false) else
  if is_mandatory_fast_packet p then (true, false, true) else
  if is_none (fp0 c) && is_default_fast_packet p then (true, false, true) else
  if is_single_frame_system p then (true, true, false) else
  if is_fast_packet_system p then (true, true, true) else
  (* user lists, group 0 then group 1; single frame list before fast packet list within a group *)
  if in_list (sf0 c) p then (true, false, false) else
  if in_list (fp0 c) p then (true, false, true) else
  if in_list (sf1 c) p then (true, false, false) else
  if in_list (fp1 c) p then (true, false, true) else
  (false, false, is_proprietary_fast_packet p).
