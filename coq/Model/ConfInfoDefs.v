(* Executable model of tNMEA2000::SetConfigurationInformation (NMEA2000.cpp) for non-null strings, group function support compiled in:
   each of the three strings is copied into a buffer of Max_N2kConfigurationInfoField_len bytes by SetCharBuf, i.e. cut to
   Max_N2kConfigurationInfoField_len-1 characters; PGN 126998 is then built from the stored strings (conf_payload).  Definitions only. *)
From Coq Require Import ZArith List Bool.
From N2kV Require Import Base.ListAux Model.NodeDefs Model.NodeRxDefs Model.GroupFnDefs Gen.GenConsts.
Import ListNotations.
Local Open Scope Z_scope.

(* SetCharBuf(str, MaxLen, buf): the characters before the terminator that fit MaxLen-1 *)
Definition set_char_buf (s:list Z) (maxlen:Z) : list Z := firstn (Z.to_nat (maxlen - 1)) s.

Definition set_configuration_information (c:rcfg) (manuf inst1 inst2:list Z) : rcfg :=
  let mx := c_Max_N2kConfigurationInfoField_len in
  let manlen := Z.min (Z.of_nat (length manuf) + 1) mx in
  let s1 := set_char_buf inst1 mx in
  let s2 := set_char_buf inst2 mx in
  let s3 := set_char_buf manuf manlen in
  {| c_only_known := c_only_known c; c_iso_handler := c_iso_handler c; c_prodinfo := c_prodinfo c;
     c_confinfo := conf_payload s1 s2 s3; c_hb_on := c_hb_on c;
     c_inst1 := s1; c_inst2 := s2; c_manuf := s3; c_inst_changed := c_inst_changed c |}.
