(* Executable model of the Actisense format code:
     src/N2kMsg.cpp          AddByteEscapedToBuf, tN2kMsg::SendInActisenseFormat (MaxActisenseMsgBuf)
     src/ActisenseReader.cpp tActisenseReader::ClearBuffer, AddByteToBuffer, CheckMessage, GetMessageFromStream
   Definitions only - proofs live in Proofs/ActisenseProofs.v.

   Bytes are Z in 0..255.  The reader's MsgBuf[MAX_STREAM_MSG_BUF_LEN] is the list [buf ++ stale]: [buf] are the bytes
   written since the last ClearBuffer (MsgWritePos = length buf), [stale] is what the rest of the array still holds from
   earlier frames (or from before the first byte: the constructor does not initialise the array).  ClearBuffer only resets the
   write position, so the code does read such bytes (MsgBuf[1] in AddByteToBuffer, the header fields in CheckMessage);
   the model reads them too, the proofs show that they never influence a result.

   x86-64 build: plain char is signed (AddByteToBuffer(char NewByte) adds a negative number for bytes >= 0x80), int is 32 bit
   (byteSum stays far below 2^31: at most 300 bytes per frame). *)
From Coq Require Import ZArith List Bool.
From N2kV Require Import Base.Res.
Import ListNotations ResNotations.
Local Open Scope Z_scope.

Definition ESC : Z := 16.      (* Escape *)
Definition STX : Z := 2.       (* StartOfText *)
Definition ETX : Z := 3.       (* EndOfText *)
Definition T_DATA : Z := 147.  (* MsgTypeN2kData 0x93 *)
Definition T_REQ : Z := 148.   (* MsgTypeN2kRequest 0x94 *)
Definition MAXDATA : Z := 223. (* tN2kMsg::MaxDataLen *)
Definition MAXBUF : Z := 300.  (* MAX_STREAM_MSG_BUF_LEN *)
Definition ENCBUF : Z := 478.  (* MaxActisenseMsgBuf = 2+2*(13+MaxDataLen)+2+2 *)

Record msg := { pri:Z; pgn:Z; dst:Z; src:Z; tim:Z; data:list Z }.

(* ================= encoder ================= *)
(* buf[idx++]=b  on  unsigned char ActisenseMsgBuf[MaxActisenseMsgBuf]; the index is an uint16_t and stays below 2^16 because
   the checked write fails first *)
Definition put (buf:list Z) (b:Z) : res (list Z) :=
  if Z.of_nat (length buf) <? ENCBUF then Ok (buf ++ [b]) else OOB.

(* AddByteEscapedToBuf(byteToAdd, idx, buf, byteSum) *)
Definition add_esc (st:list Z * Z) (b:Z) : res (list Z * Z) :=
  b1 <- put (fst st) b ;;
  if b =? ESC then (b2 <- put b1 ESC ;; Ok (b2, snd st + b)) else Ok (b1, snd st + b).

Fixpoint add_all (st:list Z * Z) (l:list Z) : res (list Z * Z) :=
  match l with
  | [] => Ok st
  | b :: r => st' <- add_esc st b ;; add_all st' r
  end.

Definition byte_of (v:Z) (i:Z) : Z := (v / 2 ^ (8 * i)) mod 256.

(* the unescaped frame body without checksum: type, length, priority, PGN, destination, source, time, data length, data *)
Definition body (m:msg) : list Z :=
  let n := Z.of_nat (length (data m)) in
  [T_DATA; n + 11; pri m; byte_of (pgn m) 0; byte_of (pgn m) 1; byte_of (pgn m) 2; dst m; src m;
   byte_of (tim m) 0; byte_of (tim m) 1; byte_of (tim m) 2; byte_of (tim m) 3; n] ++ data m.

(* tN2kMsg::SendInActisenseFormat: the bytes handed to port->write (nothing for an invalid message) *)
Definition encode (m:msg) : res (list Z) :=
  let n := Z.of_nat (length (data m)) in
  if (pgn m =? 0) || (n =? 0) then Ok [] else          (* !IsValid() *)
  if MAXDATA <? n then OOB else                         (* Data[i] beyond Data[223] *)
  b0 <- put [] ESC ;;
  b1 <- put b0 STX ;;
  st <- add_all (b1, 0) (body m) ;;
  let s := snd st mod 256 in
  let ck := if s =? 0 then 0 else 256 - s in
  b2 <- put (fst st) ck ;;
  b3 <- (if ck =? ESC then put b2 ck else Ok b2) ;;
  b4 <- put b3 ESC ;;
  b5 <- put b4 ETX ;;
  Ok b5.

(* ================= reader ================= *)
Record rst := { coming:bool;      (* MsgIsComing *)
                sot:bool;         (* StartOfTextReceived *)
                escd:bool;        (* EscapeReceived *)
                buf:list Z;       (* MsgBuf[0..MsgWritePos) *)
                stale:list Z;     (* MsgBuf[MsgWritePos..MAX_STREAM_MSG_BUF_LEN) *)
                bsum:Z;           (* byteSum *)
                dsrc:Z }.         (* DefaultSource *)

Definition init (mem:list Z) (d:Z) : rst :=
  {| coming := false; sot := false; escd := false; buf := []; stale := mem; bsum := 0; dsrc := d |}.

Definition with_flags (s:rst) (c so e:bool) : rst :=
  {| coming := c; sot := so; escd := e; buf := buf s; stale := stale s; bsum := bsum s; dsrc := dsrc s |}.

(* ClearBuffer: the array keeps its contents *)
Definition clear (s:rst) : rst :=
  {| coming := false; sot := false; escd := false; buf := []; stale := buf s ++ stale s; bsum := 0; dsrc := dsrc s |}.

Definition pos (s:rst) : Z := Z.of_nat (length (buf s)).

(* MsgBuf[i] *)
Definition rd (s:rst) (i:Z) : res Z :=
  if i <? 0 then OOB else
  match nth_error (buf s ++ stale s) (Z.to_nat i) with Some b => Ok b | None => OOB end.

Definition schar (x:Z) : Z := if x <? 128 then x else x - 256.

(* AddByteToBuffer: None = false (buffer full) *)
Definition addb (s:rst) (x:Z) : res (option rst) :=
  if MAXBUF <=? pos s then Ok None else
  match stale s with
  | [] => OOB
  | _ :: rest =>
    let s1 := {| coming := coming s; sot := sot s; escd := escd s; buf := buf s ++ [x]; stale := rest;
                 bsum := bsum s; dsrc := dsrc s |} in
    l1 <- rd s1 1 ;;
    if l1 + 3 =? pos s1 then Ok (Some s1)
    else Ok (Some {| coming := coming s; sot := sot s; escd := escd s; buf := buf s ++ [x]; stale := rest;
                     bsum := bsum s + schar x; dsrc := dsrc s |})
  end.

(* for (int j=0; i<MsgWritePos-1; i++, j++) N2kMsg.Data[j]=MsgBuf[i];   n = number of iterations left *)
Fixpoint copy (s:rst) (i j:Z) (n:nat) : res (list Z) :=
  match n with
  | O => Ok []
  | S k => b <- rd s i ;;
           if j <? MAXDATA then (r <- copy s (i+1) (j+1) k ;; Ok (b :: r)) else OOB
  end.

(* the tail of CheckMessage once DataLen has been read and i points to the first data byte *)
Definition finish (s:rst) (p g0 g1 g2 d sr t:Z) (dl i:Z) : res (option msg) :=
  if (dl >? MAXDATA) || negb (i + dl =? pos s - 1) then Ok None else
  dat <- copy s i 0 (Z.to_nat (pos s - 1 - i)) ;;
  Ok (Some {| pri := p; pgn := g0 + 256 * g1 + 65536 * g2; dst := d; src := sr; tim := t; data := dat |}).

(* CheckMessage; now = N2kMillis() *)
Definition check (now:Z) (s:rst) : res (option msg) :=
  l1 <- rd s 1 ;;
  if negb (pos s =? l1 + 3) then Ok None else
  let ck := (if bsum s =? 0 then 0 else 256 - bsum s) mod 256 in
  c <- rd s (pos s - 1) ;;
  if negb (ck =? c) then Ok None else
  p <- rd s 2 ;;
  g0 <- rd s 3 ;; g1 <- rd s 4 ;; g2 <- rd s 5 ;;
  d <- rd s 6 ;;
  ty <- rd s 0 ;;
  if ty =? T_DATA then
    sr <- rd s 7 ;;
    t0 <- rd s 8 ;; t1 <- rd s 9 ;; t2 <- rd s 10 ;; t3 <- rd s 11 ;;
    dl <- rd s 12 ;;
    finish s p g0 g1 g2 d sr (t0 + 256 * t1 + 65536 * t2 + 16777216 * t3) dl 13
  else
    dl <- rd s 7 ;;
    finish s p g0 g1 g2 d (dsrc s) (now mod 4294967296) dl 8.

(* one iteration of the loop in GetMessageFromStream for the byte x (with ReadOut=true every iteration consumes its byte) *)
Definition step (now:Z) (s:rst) (x:Z) : res (rst * option msg) :=
  if coming s then
    if escd s then
      if x =? ESC then
        r <- addb (with_flags s (coming s) (sot s) false) x ;;
        match r with Some s' => Ok (s', None) | None => Ok (clear s, None) end
      else if x =? ETX then
        ty <- rd s 0 ;;
        if (ty =? T_DATA) || (ty =? T_REQ) then (o <- check now s ;; Ok (clear s, o)) else Ok (clear s, None)
      else if x =? STX then Ok (with_flags (clear s) false true false, None)
      else Ok (clear s, None)
    else
      if x =? ESC then Ok (with_flags s (coming s) (sot s) true, None)
      else
        r <- addb s x ;;
        match r with Some s' => Ok (s', None) | None => Ok (clear s, None) end
  else
    if x =? STX then
      if escd s then Ok (with_flags (clear s) false true false, None)
      else Ok (with_flags s (coming s) false (escd s), None)
    else
      let e := x =? ESC in
      if sot s then
        r <- addb (with_flags s true false e) x ;;         (* the return value is ignored *)
        match r with Some s' => Ok (s', None) | None => Ok (with_flags s true false e, None) end
      else Ok (with_flags s (coming s) false e, None).

(* GetMessageFromStream called (ReadOut=true) until the stream is empty: final state and the reported messages *)
Fixpoint run (now:Z) (s:rst) (l:list Z) : res (rst * list msg) :=
  match l with
  | [] => Ok (s, [])
  | x :: r =>
    a <- step now s x ;;
    b <- run now (fst a) r ;;
    Ok (fst b, match snd a with Some m => m :: snd b | None => snd b end)
  end.

(* ReadOut=false: the state changes are the same, but these bytes are peeked and left in the stream (and the loop ends, because
   Handling() is false afterwards); whoever removes the byte from the stream sees it *)
Definition unconsumed (s:rst) (x:Z) : bool :=
  negb (coming s) && (if x =? STX then negb (escd s) else negb (sot s) && negb (x =? ESC)).

Fixpoint run_ro (now:Z) (s:rst) (l:list Z) : res (rst * list msg * list Z) :=
  match l with
  | [] => Ok (s, [], [])
  | x :: r =>
    a <- step now s x ;;
    b <- run_ro now (fst a) r ;;
    Ok (fst (fst b), match snd a with Some m => m :: snd (fst b) | None => snd (fst b) end,
        if unconsumed s x then x :: snd b else snd b)
  end.
