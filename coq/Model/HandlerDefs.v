(* Executable model of the message-handler list of src/NMEA2000.cpp / NMEA2000.h:
     tNMEA2000::tMsgHandler (constructor, destructor), tNMEA2000::AttachMsgHandler, DetachMsgHandler, SetMsgHandler,
     RunMessageHandlers.
   A handler object is a pool identity (nat); the C++ fields PGN and pNMEA2000 of the object are the row [htab st i]
   (pNext is represented by the position in the list).  The singly linked list MsgHandlers of a bus object is the list
   [hls st b], head first.  There are two bus objects, B1 and B2.  PGNs are unsigned long in the C++: the model uses Z and is
   meant for 0 <= pgn (< 2^32 or 2^64, whichever unsigned long is); it does not truncate.
   Operations that the C++ forbids (using a destroyed object, constructing into a live object) are ignored by the model and
   by the harness alike, so that every operation sequence is a legal history. *)
From Coq Require Import ZArith List Bool Arith.
Import ListNotations.
Local Open Scope Z_scope.

Record handler := { hid : nat; hpgn : Z }.        (* list node: identity + copy of the object's PGN (GetPGN()) *)
Inductive bus := B1 | B2.
Definition bus_eqb (a b:bus) : bool := match a, b with B1, B1 => true | B2, B2 => true | _, _ => false end.

(* ---------- the pointer algorithms on one list ---------- *)
(* AttachMsgHandler, else-branch of the head test:
     for ( ; MsgHandler->pNext!=0 && MsgHandler->pNext->GetPGN()<_MsgHandler->GetPGN(); MsgHandler=MsgHandler->pNext );
     _MsgHandler->pNext=MsgHandler->pNext; MsgHandler->pNext=_MsgHandler;
   [ins_scan x r] is the list hanging off MsgHandler->pNext after the insertion *)
Fixpoint ins_scan (x:handler) (l:list handler) : list handler :=
  match l with
  | [] => [x]
  | y::r => if hpgn y <? hpgn x then y :: ins_scan x r else x :: l
  end.
(* AttachMsgHandler, list part (handler known not to be in any list):
     if ( MsgHandlers==0 ) MsgHandlers=_MsgHandler;
     else if ( MsgHandlers->GetPGN()>_MsgHandler->GetPGN() ) add to first  else scan *)
Definition insert (x:handler) (l:list handler) : list handler :=
  match l with
  | [] => [x]
  | y::r => if hpgn y >? hpgn x then x :: l else y :: ins_scan x r
  end.
(* DetachMsgHandler, list part: head test, else scan for the node whose pNext is the handler; the first node with that
   identity is unlinked, a list not containing it is left alone *)
Fixpoint unlink (i:nat) (l:list handler) : list handler :=
  match l with
  | [] => []
  | y::r => if Nat.eqb (hid y) i then r else y :: unlink i r
  end.
(* RunMessageHandlers, second loop: for ( ;h!=0 && h->GetPGN()<=N2kMsg.PGN; h=h->pNext) if ( h->GetPGN()==N2kMsg.PGN ) call *)
Fixpoint d2 (m:Z) (l:list handler) : list nat :=
  match l with
  | [] => []
  | y::r => if hpgn y <=? m then (if hpgn y =? m then [hid y] else []) ++ d2 m r else []
  end.
(* first loop: for ( ;h!=0 && h->GetPGN()==0; h=h->pNext) call; then the second loop continues from where it stopped *)
Fixpoint d1 (m:Z) (l:list handler) : list nat :=
  match l with
  | [] => []
  | y::r => if hpgn y =? 0 then hid y :: d1 m r else d2 m l
  end.

(* ---------- objects and buses ---------- *)
Record hobj := { oalive : bool; opgn : Z; obus : option bus }.     (* obus = pNMEA2000 (None = 0) *)
Record hstate := { hls : bus -> list handler;                     (* MsgHandlers of each bus object *)
                   hcb : bus -> bool;                             (* MsgHandler!=0 (plain callback set) *)
                   htab : nat -> hobj }.

Definition dead_obj : hobj := {| oalive := false; opgn := 0; obus := None |}.
Definition hinit : hstate := {| hls := fun _ => []; hcb := fun _ => false; htab := fun _ => dead_obj |}.

Definition set_ls (st:hstate) (b:bus) (l:list handler) : hstate :=
  {| hls := fun b' => if bus_eqb b' b then l else hls st b'; hcb := hcb st; htab := htab st |}.
Definition set_tab (st:hstate) (i:nat) (o:hobj) : hstate :=
  {| hls := hls st; hcb := hcb st; htab := fun j => if Nat.eqb j i then o else htab st j |}.
Definition set_cb (st:hstate) (b:bus) (on:bool) : hstate :=
  {| hls := hls st; hcb := fun b' => if bus_eqb b' b then on else hcb st b'; htab := htab st |}.

(* tNMEA2000::DetachMsgHandler(h): works on h->pNMEA2000's list whichever bus object it is called on;
     if ( _MsgHandler==0 || _MsgHandler->pNMEA2000==0 ) return;  ... unlink ... pNext=0; pNMEA2000=0 *)
Definition detach_obj (st:hstate) (i:nat) : hstate :=
  let o := htab st i in
  match obus o with
  | None => st
  | Some b => set_tab (set_ls st b (unlink i (hls st b))) i {| oalive := oalive o; opgn := opgn o; obus := None |}
  end.

(* tNMEA2000::AttachMsgHandler(h) on bus object b:
     if ( _MsgHandler->pNMEA2000==this ) return;  DetachMsgHandler(_MsgHandler);  insert;  _MsgHandler->pNMEA2000=this *)
Definition attach_obj (st:hstate) (i:nat) (b:bus) : hstate :=
  let o := htab st i in
  if (match obus o with Some b' => bus_eqb b' b | None => false end) then st
  else
    let st1 := detach_obj st i in
    let st2 := set_ls st1 b (insert {| hid := i; hpgn := opgn o |} (hls st1 b)) in
    set_tab st2 i {| oalive := oalive o; opgn := opgn o; obus := Some b |}.

(* RunMessageHandlers on bus b for a message with PGN m: the calls made, in order *)
Inductive call := CB | CH (i:nat).            (* plain callback | HandleMsg of handler object i *)
Definition run_handlers (st:hstate) (b:bus) (m:Z) : list call :=
  (if hcb st b then [CB] else []) ++ map CH (d1 m (hls st b)).

Inductive hop :=
| HCreate (i:nat) (p:Z) (ob:option bus)     (* new tMsgHandler(p) / new tMsgHandler(p,&bus) into pool slot i *)
| HAttach (i:nat) (b:bus)                   (* bus.AttachMsgHandler(h_i) *)
| HDetach (i:nat)                           (* anybus.DetachMsgHandler(h_i) *)
| HDestroy (i:nat)                          (* delete h_i *)
| HRun (b:bus) (m:Z)                        (* bus.RunMessageHandlers(msg with PGN m) *)
| HSetCb (b:bus) (on:bool).                 (* bus.SetMsgHandler(f) / SetMsgHandler(0) *)

Definition hstep (st:hstate) (o:hop) : hstate * list call :=
  match o with
  | HCreate i p ob =>
      if oalive (htab st i) then (st, [])
      else let st1 := set_tab st i {| oalive := true; opgn := p; obus := None |} in      (* PGN=_PGN; pNext=0; pNMEA2000=0 *)
           (match ob with Some b => attach_obj st1 i b | None => st1 end, [])
  | HAttach i b => if oalive (htab st i) then (attach_obj st i b, []) else (st, [])
  | HDetach i => if oalive (htab st i) then (detach_obj st i, []) else (st, [])
  | HDestroy i =>
      if oalive (htab st i)
      then let st1 := detach_obj st i in                                                  (* ~tMsgHandler *)
           (set_tab st1 i {| oalive := false; opgn := opgn (htab st1 i); obus := None |}, [])
      else (st, [])
  | HRun b m => (st, run_handlers st b m)
  | HSetCb b on => (set_cb st b on, [])
  end.

(* one output per operation (empty for everything but HRun) *)
Fixpoint hrun (st:hstate) (ops:list hop) : hstate * list (list call) :=
  match ops with
  | [] => (st, [])
  | o::rest => let '(st1, x) := hstep st o in let '(st2, xs) := hrun st1 rest in (st2, x::xs)
  end.
