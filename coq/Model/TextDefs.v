(* Executable model of the text-field code of src/N2kMsg.cpp:
     N2kRequireUnicode, N2kUTF8CharBytes, N2kUTF8ToUCS2, N2kUTF8ToASCII, N2kUCS2ToUTF8, SetBufStr / tN2kMsg::AddStr, AddAISStr,
     AddVarStr (both overloads), AddByte, GetByte, GetStr (sized and unsized), GetVarStr (both overloads).
   Definitions only - proofs live in Proofs/TextProofs*.v.

   A C string is the list of its bytes before the terminating NUL (each 1..255); reading index [length s] yields the
   terminator 0, reading beyond it is OOB.  The payload is Data[223] (a list of 223 bytes) with DataLen; a destination
   buffer is the list of its bytes (its length is the allocated size).  Every array access is checked: the model returns
   OOB exactly where the C++ reads or writes outside the object.
   Bit tests on bytes are written as ranges / div / mod by constants: (b & 0xE0)==0xC0 is 192 <= b < 224,
   b & 0x3F is b mod 64, x << 6 is x*64 and so on (validated by the correspondence).  [char] is signed (x86-64). *)
From Coq Require Import ZArith List Bool.
From N2kV Require Import Base.Res Base.ListAux.
Import ListNotations ResNotations.
Local Open Scope Z_scope.

(* ---------- checked access ---------- *)
Definition rd (s:list Z) (i:Z) : res Z :=                    (* C string *)
  if i <? 0 then OOB else
  match nth_error s (Z.to_nat i) with
  | Some b => Ok b
  | None => if i =? Z.of_nat (length s) then Ok 0 else OOB
  end.

Definition inb (d:list Z) (i:Z) : bool := (0 <=? i) && (i <? Z.of_nat (length d)).
Definition wr (d:list Z) (i:Z) (v:Z) : res (list Z) := if inb d i then Ok (zset d i v) else OOB.   (* array write *)
Definition rdb (d:list Z) (i:Z) : res Z := if inb d i then Ok (znth d i 0) else OOB.                (* array read *)

Definition MaxDataLen : Z := 223.
Record msg := { mdata : list Z; mlen : Z }.              (* Data[MaxDataLen], DataLen *)

(* ---------- UTF-8 lead byte classes ---------- *)
Definition is_cont (b:Z) : bool := (128 <=? b) && (b <? 192).              (* (b & 0xC0)==0x80 *)
(* number of bytes announced by a lead byte; 0 = not a lead byte (0x80..0xBF, 0xFE, 0xFF) *)
Definition lead_len (b:Z) : Z :=
  if b <? 128 then 1 else if b <? 192 then 0 else if b <? 224 then 2 else if b <? 240 then 3 else
  if b <? 248 then 4 else if b <? 252 then 5 else if b <? 254 then 6 else 0.

(* N2kRequireUnicode: true iff the first non-ASCII character is a lead byte followed by all its continuation bytes *)
Fixpoint ru_cont (s:list Z) (n:nat) (p:Z) : res (option Z) :=      (* str++; byte=*str; for (i=1;i<num;++i) ... *)
  match n with
  | O => b <- rd s p ;; Ok (Some p)
  | S k => b <- rd s p ;; if is_cont b then ru_cont s k (p+1) else Ok None
  end.
Fixpoint ru_loop (s:list Z) (fuel:nat) (p:Z) : res bool :=
  match fuel with
  | O => Fuel
  | S k =>
    b <- rd s p ;;
    if b =? 0 then Ok false else
    let num := lead_len b in
    if num =? 0 then Ok false else
    r <- ru_cont s (Z.to_nat (num - 1)) (p+1) ;;
    match r with
    | None => Ok false
    | Some p' => if num >? 1 then Ok true else ru_loop s k p'
    end
  end.
Definition require_unicode (s:list Z) : res bool := ru_loop s (S (length s)) 0.

(* N2kUTF8CharBytes(UTF8Chars=s+p, charLen): lead byte plus the continuation bytes that really follow, at most charLen *)
Fixpoint char_bytes_go (s:list Z) (p:Z) (n:nat) (bytes:Z) : res Z :=
  match n with
  | O => Ok bytes
  | S k => b <- rd s (p + bytes) ;; if is_cont b then char_bytes_go s p k (bytes+1) else Ok bytes
  end.
Definition char_bytes (s:list Z) (p:Z) (charlen:Z) : res Z := char_bytes_go s p (Z.to_nat (charlen - 1)) 1.

(* one character of N2kUTF8ToUCS2: the UCS-2 value and usedBytes.  c = s[p] <> 0 *)
Definition ucs2_char (s:list Z) (p:Z) (c:Z) : res (Z * Z) :=
  let n := lead_len c in
  if n =? 1 then Ok (c, 1) else
  if n =? 0 then Ok (63, 1) else
  used <- char_bytes s p n ;;
  if n =? 2 then
    (if used =? 2 then c1 <- rd s (p+1) ;; Ok ((c mod 32) * 64 + c1 mod 64, used) else Ok (63, used))
  else if n =? 3 then
    (if used =? 3 then c1 <- rd s (p+1) ;; c2 <- rd s (p+2) ;; Ok ((c mod 16) * 4096 + (c1 mod 64) * 64 + c2 mod 64, used)
     else Ok (63, used))
  else Ok (63, used).

(* N2kUTF8ToUCS2(str, buf=&d[off], bufLen): returns Len and the buffer.  bp = buf - &d[off] *)
Fixpoint u2u_loop (s:list Z) (fuel:nat) (p len bp:Z) (d:list Z) (off buflen:Z) : res (Z * list Z) :=
  match fuel with
  | O => Fuel
  | S k =>
    c <- rd s p ;;
    if (c =? 0) || negb (len + 2 <=? buflen) then Ok (len, d) else
    r <- ucs2_char s p c ;;
    let (u, used) := r in
    d1 <- wr d (off + bp) (u mod 256) ;;
    d2 <- wr d1 (off + bp + 1) (u / 256) ;;
    u2u_loop s k (p + used) (len + 2) (bp + 2) d2 off buflen
  end.
Definition utf8_to_ucs2 (s:list Z) (d:list Z) (off buflen:Z) : res (Z * list Z) :=
  u2u_loop s (S (length s)) 0 0 0 d off buflen.

(* N2kUTF8ToASCII *)
Definition ascii_char (s:list Z) (p:Z) (c:Z) : res (Z * Z) :=
  let n := lead_len c in
  if n =? 1 then Ok (c, 1) else
  if n =? 0 then Ok (63, 1) else
  used <- char_bytes s p n ;; Ok (63, used).
Fixpoint u2a_loop (s:list Z) (fuel:nat) (p len:Z) (d:list Z) (off buflen:Z) : res (Z * list Z) :=
  match fuel with
  | O => Fuel
  | S k =>
    c <- rd s p ;;
    if (c =? 0) || negb (len <? buflen) then Ok (len, d) else
    r <- ascii_char s p c ;;
    let (u, used) := r in
    d1 <- wr d (off + len) u ;;
    u2a_loop s k (p + used) (len + 1) d1 off buflen
  end.
Definition utf8_to_ascii (s:list Z) (d:list Z) (off buflen:Z) : res (Z * list Z) :=
  u2a_loop s (S (length s)) 0 0 d off buflen.

(* ---------- SetBufStr / AddStr ---------- *)
Fixpoint sbs_copy (s:list Z) (n:nat) (i index:Z) (buf:list Z) : res (Z * Z * list Z) :=   (* for (; i<len && str[i]!=0; ...) *)
  match n with
  | O => Ok (i, index, buf)
  | S k => c <- rd s i ;; if c =? 0 then Ok (i, index, buf) else b <- wr buf index c ;; sbs_copy s k (i+1) (index+1) b
  end.
Fixpoint fill_go (n:nat) (index:Z) (buf:list Z) (v:Z) : res (Z * list Z) :=                (* for (; i<len; ...) buf[index]=v *)
  match n with
  | O => Ok (index, buf)
  | S k => b <- wr buf index v ;; fill_go k (index+1) b v
  end.
Definition set_buf_str (s:list Z) (len index:Z) (buf:list Z) (fillc:Z) : res (Z * list Z) :=
  r <- sbs_copy s (Z.to_nat len) 0 index buf ;;
  let '(i, idx, b) := r in
  fill_go (Z.to_nat (len - i)) idx b fillc.

Definition add_str (m:msg) (s:list Z) (len fillc:Z) : res msg :=
  r <- set_buf_str s len (mlen m) (mdata m) fillc ;;
  Ok {| mdata := snd r; mlen := fst r |}.

Definition add_byte (m:msg) (v:Z) : res msg :=
  d <- wr (mdata m) (mlen m) v ;; Ok {| mdata := d; mlen := mlen m + 1 |}.

(* ---------- AddAISStr ---------- *)
Definition schar (b:Z) : Z := if b <? 128 then b else b - 256.                  (* (int)*str with signed char *)
Definition toupper_c (x:Z) : Z := if (97 <=? x) && (x <=? 122) then x - 32 else x.   (* C locale; bytes >= 0x80 stay negative as char *)
Definition ais_char (b:Z) : Z := let c := toupper_c (schar b) in if (32 <=? c) && (c <=? 95) then c else 63.

Fixpoint ais_loop (s:list Z) (n:nat) (len p dl:Z) (d:list Z) : res (Z * Z * list Z) :=
  match n with
  | O => Ok (len, dl, d)
  | S k =>
    c <- rd s p ;;
    if (c =? 0) || negb (dl <? MaxDataLen) then Ok (len, dl, d) else
    d' <- wr d dl (ais_char c) ;; ais_loop s k (len - 1) (p + 1) (dl + 1) d'
  end.
Definition add_ais_str (m:msg) (s:list Z) (len:Z) : res msg :=
  r <- ais_loop s (Z.to_nat len) len 0 (mlen m) (mdata m) ;;
  let '(len1, dl, d) := r in
  let len2 := if len1 >? MaxDataLen - dl then MaxDataLen - dl else len1 in
  if len2 >? 0 then (f <- fill_go (Z.to_nat len2) dl d 64 ;; Ok {| mdata := snd f; mlen := dl + len2 |})
  else Ok {| mdata := d; mlen := dl + len2 |}.

(* ---------- AddVarStr ---------- *)
(* support: true = vss_SupportUnicode, false = vss_ForceASCII ; chars: true = vsl_UseCharacters, false = vsl_UseBytes *)
Definition add_var_str (m:msg) (s:list Z) (maxlen:Z) (support chars:bool) : res msg :=
  let buffree := if mlen m <? MaxDataLen then MaxDataLen - mlen m else 0 in
  c0 <- (if buffree <=? 2 then Ok 0 else rd s 0) ;;
  if (buffree <=? 2) || (c0 =? 0) then
    (if buffree >=? 2 then m1 <- add_byte m 2 ;; add_byte m1 1
     else if buffree =? 1 then add_byte m 1
     else Ok m)
  else
  let datastart := mlen m in
  m1 <- add_byte m 2 ;;
  m2 <- add_byte m1 1 ;;
  let buffree := buffree - 2 in
  ru <- require_unicode s ;;
  r <- (if ru then
          if support then
            let maxlen := if chars then maxlen * 2 else maxlen in
            let buffree := if buffree >? maxlen then maxlen else buffree in
            x <- utf8_to_ucs2 s (mdata m2) (mlen m2) buffree ;;
            Ok (fst x, 0, {| mdata := snd x; mlen := mlen m2 + fst x |})
          else
            let buffree := if buffree >? maxlen then maxlen else buffree in
            x <- utf8_to_ascii s (mdata m2) (mlen m2) buffree ;;
            Ok (fst x, 1, {| mdata := snd x; mlen := mlen m2 + fst x |})
        else
          let len := Z.of_nat (length s) in
          let len := if len >? maxlen then maxlen else len in
          let len := if buffree <? len then buffree else len in
          m3 <- add_str m2 s len 255 ;;
          Ok (len, 1, m3)) ;;
  let '(len, type, m3) := r in
  d1 <- wr (mdata m3) datastart ((len + 2) mod 256) ;;
  d2 <- wr d1 (datastart + 1) type ;;
  Ok {| mdata := d2; mlen := mlen m3 |}.

(* AddVarStr(str, UsePgm) *)
Definition add_var_str2 (m:msg) (s:list Z) : res msg := add_var_str m s 5000 true false.

(* ---------- GetByte / GetStr ---------- *)
Definition get_byte (m:msg) (idx:Z) : res (Z * Z) :=
  if idx <? mlen m then v <- rdb (mdata m) idx ;; Ok (v, idx + 1) else Ok (255, idx).

(* (size_t)Index+Length <= (size_t)DataLen with Index >= 0 *)
Definition fits (m:msg) (idx len:Z) : bool := (0 <=? idx) && (idx + len <=? mlen m).

(* unsized GetStr(StrBuf, Length, Index): needs Length+1 bytes of destination; stops at NUL or '@' *)
Fixpoint gsu_loop (m:msg) (n:nat) (i idx:Z) (nr:bool) (dest:list Z) : res (Z * list Z) :=
  match n with
  | O => Ok (idx, dest)
  | S k =>
    g <- get_byte m idx ;;
    let (vb, idx') := g in
    let stop := nr || (vb =? 0) || (vb =? 64) in
    d1 <- wr dest i (if stop then 0 else vb) ;;
    d2 <- wr d1 (i + 1) 0 ;;
    gsu_loop m k (i + 1) idx' stop d2
  end.
Definition get_str_unsized (m:msg) (dest:list Z) (len idx:Z) : res (bool * Z * list Z) :=
  d0 <- wr dest 0 0 ;;
  if fits m idx len then
    r <- gsu_loop m (Z.to_nat len) 0 idx false d0 ;; Ok (true, fst r, snd r)
  else Ok (false, idx, d0).

(* sized GetStr(StrBufSize, StrBuf, Length, nulChar, Index) *)
Fixpoint gss_loop (m:msg) (n:nat) (i idx:Z) (nr:bool) (dest:list Z) (size len nul:Z) : res (Z * Z * list Z) :=
  match n with
  | O => Ok (i, idx, dest)
  | S k =>
    if (i <? len) && (i <? size - 1) then
      g <- get_byte m idx ;;
      let (vb, idx') := g in
      let stop := nr || (vb =? 0) || (vb =? nul) in
      d1 <- wr dest i (if stop then 0 else vb) ;;
      gss_loop m k (i + 1) idx' stop d1 size len nul
    else Ok (i, idx, dest)
  end.
Fixpoint skip_go (m:msg) (n:nat) (idx:Z) : res Z :=              (* for (;i<Length;i++) GetByte(Index) *)
  match n with
  | O => Ok idx
  | S k => g <- get_byte m idx ;; skip_go m k (snd g)
  end.
Definition get_str_sized (m:msg) (size:Z) (dest:list Z) (len nul idx:Z) : res (bool * Z * list Z) :=
  if size =? 0 then Ok (true, idx + len, dest) else
  d0 <- wr dest 0 0 ;;
  if fits m idx len then
    r <- gss_loop m (S (Z.to_nat len)) 0 idx false d0 size len nul ;;
    let '(i, idx1, d1) := r in
    d2 <- wr d1 i 0 ;;
    idx2 <- skip_go m (Z.to_nat (len - i)) idx1 ;;
    f <- fill_go (Z.to_nat (size - len)) len d2 0 ;;          (* i = Length here *)
    Ok (true, idx2, snd f)
  else Ok (false, idx, d0).

(* ---------- N2kUCS2ToUTF8(str=&data[off], strLen, buf, bufLen, nulChar) ---------- *)
Fixpoint u2utf_loop (data:list Z) (off strlen:Z) (n:nat) (i ulen:Z) (dest:list Z) (buflen nul:Z) : res (Z * list Z) :=
  match n with
  | O => Ok (ulen, dest)
  | S k =>
    if (i + 1 <? strlen) && (ulen <? buflen) then
      lo <- rdb data (off + i) ;;
      hi <- rdb data (off + i + 1) ;;
      let u := lo + hi * 256 in
      if u <? 128 then
        d1 <- wr dest ulen u ;;
        u2utf_loop data off strlen k (i + 2) (if u =? nul then ulen else ulen + 1) d1 buflen nul
      else if u <? 2048 then
        if ulen + 1 <? buflen then
          d1 <- wr dest (ulen + 1) (128 + u mod 64) ;;
          d2 <- wr d1 ulen (192 + u / 64) ;;
          u2utf_loop data off strlen k (i + 2) (ulen + 2) d2 buflen nul
        else Ok (ulen, dest)
      else
        if ulen + 2 <? buflen then
          d1 <- wr dest (ulen + 2) (128 + u mod 64) ;;
          d2 <- wr d1 (ulen + 1) (128 + (u / 64) mod 64) ;;
          d3 <- wr d2 ulen (224 + u / 4096) ;;
          u2utf_loop data off strlen k (i + 2) (ulen + 3) d3 buflen nul
        else Ok (ulen, dest)
    else Ok (ulen, dest)
  end.
Definition ucs2_to_utf8 (data:list Z) (off strlen:Z) (dest:list Z) (buflen nul:Z) : res (Z * list Z) :=
  if buflen <=? 0 then Ok (0, dest) else
  r <- u2utf_loop data off strlen (S (Z.to_nat strlen)) 0 0 dest (buflen - 1) nul ;;
  d <- wr (snd r) (fst r) 0 ;;
  Ok (fst r, d).

(* ---------- GetVarStr(StrBufSize, StrBuf, nulChar, Index): (return value, StrBufSize, Index, buffer) ---------- *)
Definition get_var_str (m:msg) (size:Z) (dest:list Z) (nul idx:Z) : res (bool * Z * Z * list Z) :=
  g1 <- get_byte m idx ;;
  g2 <- get_byte m (snd g1) ;;
  let len := fst g1 in let type := fst g2 in let idx2 := snd g2 in
  if (len <=? 2) || (len =? 255) || (type >? 1) || (idx2 >=? mlen m) then
    d <- (if size >? 0 then wr dest 0 0 else Ok dest) ;;
    if (len =? 2) && (type <=? 1) then Ok (true, 0, idx2, d) else Ok (false, 0, MaxDataLen, d)
  else
  let len := len - 2 in
  let len := if len + idx2 >? mlen m then (mlen m - idx2) mod 256 else len in
  if size >? 0 then
    if type =? 1 then
      r <- get_str_sized m size dest len nul idx2 ;;
      let '(_, idx3, d) := r in Ok (true, len, idx3, d)
    else
      r <- ucs2_to_utf8 (mdata m) idx2 len dest size nul ;;
      Ok (true, fst r, idx2 + len, snd r)
  else Ok (true, 0, idx2 + len, dest).

(* GetVarStr(StrBufSize, StrBuf, Index) *)
Definition get_var_str3 (m:msg) (size:Z) (dest:list Z) (idx:Z) : res (bool * Z * Z * list Z) := get_var_str m size dest 255 idx.
