(* Hand-written models of the three "append a record" functions of N2kMessages.cpp (they read and rewrite an existing message and are
   outside the setter/parser IR): AppendN2kPGN129540 (satellites in view), AppendN2kPGN129285 (route/waypoint information) and
   AppendN2kPGN130074 (waypoint list), function for function over the primitives of Model/NumDefs.v and Model/MsgExec.v.
   A message here always has m_data of exactly m_len bytes (what the setters and these functions leave).  Text is ASCII (the
   variable string of 129285 is the ASCII case of AddVarStr; other text belongs to C16).  No proofs here; validated bit for bit
   against the C++ by the C05 correspondence ("A" cases) and used by Proofs/MsgAppendProofs.v. *)
From Coq Require Import ZArith List Bool.
From N2kV Require Import Model.SoftFloat Model.NumDefs Model.MsgIR Model.MsgExec.
Import ListNotations.
Local Open Scope Z_scope.

Definition p_1e4 : Z := 4547007122018943789.     (* 1e-4 *)
Definition p_1e2 : Z := 4576918229304087675.     (* 1e-2 *)
Definition p_1e5 : Z := 4532020583610935537.     (* 1e-5 *)
Definition p_1e7 : Z := 4502148214488346440.     (* 1e-7 *)
Definition max_sat : Z := 18.                    (* MaxSatelliteInfoCount *)
Definition max_wp_name : Z := 30.                (* MaxRouteOrWPNameLength *)

Definition with_data (m:msg) (d:list Z) : msg :=
  {| m_pgn := m_pgn m; m_prio := m_prio m; m_dest := m_dest m; m_len := zlen d; m_data := d |}.

(* Data[i] = v for i inside the list *)
Fixpoint set_nth (i:nat) (v:Z) (l:list Z) : list Z :=
  match l, i with
  | [], _ => []
  | _ :: r, O => v :: r
  | x :: r, S k => x :: set_nth k v r
  end.

(* tN2kMsg::SetByte(v, Index): only when Index < DataLen *)
Definition set_byte (idx v:Z) (d:list Z) : list Z :=
  if (0 <=? idx) && (idx <? zlen d) then set_nth (Z.to_nat idx) (v mod 256) d else d.
(* tN2kMsg::Set2ByteUInt(v, Index): only when Index+1 < DataLen *)
Definition set_2byte (idx v:Z) (d:list Z) : list Z :=
  if (0 <=? idx) && (idx + 1 <? zlen d)
  then set_nth (Z.to_nat idx + 1) ((v / 256) mod 256) (set_nth (Z.to_nat idx) (v mod 256) d) else d.

(* ---- PGN 129540: arguments PRN, Elevation, Azimuth, SNR, RangeResiduals, UsageStatus *)
Definition sat_record (args:list argval) : list Z :=
  add_int 1 (arg_int args 0) ++ add_double 2 true (arg_dbl args 1) p_1e4 ++ add_double 2 false (arg_dbl args 2) p_1e4 ++
  add_double 2 true (arg_dbl args 3) p_1e2 ++ add_double 4 true (arg_dbl args 4) p_1e5 ++ add_int 1 (Z.lor 240 (arg_int args 5)).

Definition append_129540 (m:msg) (args:list argval) : bool * msg :=
  if negb (m_pgn m =? 129540) then (false, m) else
  let n := fst (get_int 1%nat false 255 2 (m_len m) (m_data m)) in
  if max_sat <=? n then (false, m) else
  (true, with_data m (set_byte 2 (n + 1) (m_data m) ++ sat_record args)).

(* ---- PGN 129285: arguments ID, Name, Latitude, Longitude *)
Definition append_129285 (m:msg) (args:list argval) : bool * msg :=
  if negb (m_pgn m =? 129285) then (false, m) else
  let name := arg_txt args 1 in
  let len := 12 + zlen name in
  if m_len m + len <? max_data_len then
    let d0 := m_data m ++ add_int 2 (arg_int args 0) in
    let d1 := d0 ++ add_var_str (zlen d0) max_wp_name name in
    if zlen d1 + 8 <? max_data_len then
      let d2 := d1 ++ add_double 4 true (arg_dbl args 2) p_1e7 ++ add_double 4 true (arg_dbl args 3) p_1e7 in
      let items := fst (get_int 2%nat false 65535 2 (zlen d2) d2) in
      (true, with_data m (set_2byte 2 ((items + 1) mod 65536) d2))
    else (false, m)
  else (false, m).

(* ---- PGN 130074: arguments ID, Name, Latitude, Longitude *)
Definition append_130074 (m:msg) (args:list argval) : bool * msg :=
  if negb (m_pgn m =? 130074) then (false, m) else
  let name := arg_txt args 1 in
  let len := if 0 <? zlen name then 12 + zlen name else 13 in
  if m_len m + len <? max_data_len then
    let items := fst (get_int 2%nat false 65535 2 (m_len m) (m_data m)) in
    let d0 := set_2byte 2 ((items + 1) mod 65536) (m_data m) ++ add_int 2 (arg_int args 0) in
    let d1 := d0 ++ (match name with
                     | [] => [3; 1; 0]
                     | _ => ((zlen name + 2) mod 256) :: 1 :: map (fun c => c mod 256) name
                     end) in
    (true, with_data m (d1 ++ add_double 4 true (arg_dbl args 2) p_1e7 ++ add_double 4 true (arg_dbl args 3) p_1e7))
  else (false, m).

(* dispatch by PGN, for the driver *)
Definition append_model (pgn:Z) (m:msg) (args:list argval) : bool * msg :=
  if pgn =? 129540 then append_129540 m args else
  if pgn =? 129285 then append_129285 m args else
  if pgn =? 130074 then append_130074 m args else (false, m).
