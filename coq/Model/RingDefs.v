(* Executable model of src/RingBuffer.h / RingBuffer.tpp: tRingBuffer<T> and tPriorityRingBuffer<T> (values are Z).
   Indices are Z kept in [0,size); the C++ uses uint16_t with (x+1) % size computed in int, so no wrap below 65535. *)
From Coq Require Import ZArith List Bool.
From N2kV Require Import Base.ListAux.
Import ListNotations.
Local Open Scope Z_scope.

(* ================= plain ring ================= *)
Record ring := { rsize : Z; rhead : Z; rtail : Z; rbuf : list Z }.

Definition clamp_size (s:Z) : Z := if s <? 3 then 3 else s.
Definition ring_new (s:Z) : ring :=
  let s' := clamp_size s in {| rsize := s'; rhead := 0; rtail := 0; rbuf := repeat 0 (Z.to_nat s') |}.
Definition ring_is_empty (r:ring) : bool := rhead r =? rtail r.
Definition ring_clear (r:ring) : ring := {| rsize := rsize r; rhead := 0; rtail := 0; rbuf := rbuf r |}.
Definition ring_count (r:ring) : Z := let e := rhead r - rtail r in if e <? 0 then e + rsize r else e.
(* add / getAddRef + store through the returned pointer *)
Definition ring_add (r:ring) (v:Z) : ring * bool :=
  let nx := (rhead r + 1) mod rsize r in
  if nx =? rtail r then (r, false)
  else ({| rsize := rsize r; rhead := nx; rtail := rtail r; rbuf := zset (rbuf r) (rhead r) v |}, true).
(* read / getReadRef + load through the returned pointer *)
Definition ring_read (r:ring) : ring * option Z :=
  if ring_is_empty r then (r, None)
  else ({| rsize := rsize r; rhead := rhead r; rtail := (rtail r + 1) mod rsize r; rbuf := rbuf r |}, Some (znth (rbuf r) (rtail r) 0)).
Definition ring_peek (r:ring) : option Z := if ring_is_empty r then None else Some (znth (rbuf r) (rtail r) 0).

Inductive rop := RAdd (v:Z) | RRead | RPeek | RClear | RCount | RIsEmpty.
Inductive rout := OBool (b:bool) | OVal (v:option Z) | ONum (n:Z) | OUnit.
Definition ring_step (r:ring) (o:rop) : ring * rout :=
  match o with
  | RAdd v => let '(r', b) := ring_add r v in (r', OBool b)
  | RRead => let '(r', x) := ring_read r in (r', OVal x)
  | RPeek => (r, OVal (ring_peek r))
  | RClear => (ring_clear r, OUnit)
  | RCount => (r, ONum (ring_count r))
  | RIsEmpty => (r, OBool (ring_is_empty r))
  end.
Fixpoint ring_run (r:ring) (ops:list rop) : ring * list rout :=
  match ops with
  | [] => (r, [])
  | o::rest => let '(r1, x) := ring_step r o in let '(r2, xs) := ring_run r1 rest in (r2, x::xs)
  end.

(* ================= priority ring ================= *)
Definition INVALID_REF : Z := 65535.
Definition INVALID_PRI : Z := 255.
Record slot := { sval : Z; snext : Z; spri : Z }.
Record pref := { pnext : Z; plast : Z }.
Record pring := { psize : Z; pmax : Z; phead : Z; ptail : Z; pslots : list slot; prefs : list pref }.

Definition dslot : slot := {| sval := 0; snext := INVALID_REF; spri := INVALID_PRI |}.
Definition dref : pref := {| pnext := INVALID_REF; plast := INVALID_REF |}.
Definition clamp_pri (m:Z) : Z := if m <? 1 then 1 else if m =? 255 then 254 else m.
Definition pring_new (s m:Z) : pring :=
  let s' := clamp_size s in let m' := clamp_pri m in
  {| psize := s'; pmax := m'; phead := 0; ptail := 0; pslots := repeat dslot (Z.to_nat s'); prefs := repeat dref (Z.to_nat m') |}.
Definition eff_pri (r:pring) (p:Z) : Z := if p >=? pmax r then pmax r - 1 else p.
Definition pring_is_empty (r:pring) (p:Z) : bool :=
  if p >=? pmax r then phead r =? ptail r else pnext (znth (prefs r) p dref) =? INVALID_REF.
Definition pring_clear (r:pring) : pring :=
  {| psize := psize r; pmax := pmax r; phead := 0; ptail := 0; pslots := pslots r; prefs := repeat dref (Z.to_nat (pmax r)) |}.
Definition pring_count (r:pring) : Z := let e := phead r - ptail r in if e <? 0 then e + psize r else e.

(* getAddRef(_priority) + store *)
Definition pring_add (r:pring) (p0 v:Z) : pring * bool :=
  let p := eff_pri r p0 in
  let nx := (phead r + 1) mod psize r in
  if nx =? ptail r then (r, false) else
  let h := phead r in
  let pr := znth (prefs r) p dref in
  let slots1 := zset (pslots r) h {| sval := v; snext := INVALID_REF; spri := p |} in
  let slots2 := if pnext pr =? INVALID_REF then slots1
                else let l := plast pr in let s := znth slots1 l dslot in zset slots1 l {| sval := sval s; snext := h; spri := spri s |} in
  let pr' := {| pnext := (if pnext pr =? INVALID_REF then h else pnext pr); plast := h |} in
  ({| psize := psize r; pmax := pmax r; phead := nx; ptail := ptail r; pslots := slots2; prefs := zset (prefs r) p pr' |}, true).

(* the tail advance loop of getReadRef: tail=(tail+1)%size while tail!=head && slot[tail].priority==INVALID *)
Fixpoint advance (fuel:nat) (size head:Z) (slots:list slot) (t:Z) : Z :=
  match fuel with
  | O => t
  | S k => if negb (t =? head) && (spri (znth slots t dslot) =? INVALID_PRI) then advance k size head slots ((t + 1) mod size) else t
  end.

(* getReadRef(uint8_t _priority) + load *)
Definition pring_read_pri (r:pring) (p0:Z) : pring * option Z :=
  let p := eff_pri r p0 in
  let pr := znth (prefs r) p dref in
  let ref := pnext pr in
  if ref =? INVALID_REF then (r, None) else
  let s := znth (pslots r) ref dslot in
  let nn := snext s in
  let pr' := {| pnext := nn; plast := (if nn =? INVALID_REF then INVALID_REF else plast pr) |} in
  let t' := if ref =? ptail r then advance (Z.to_nat (psize r)) (psize r) (phead r) (pslots r) ((ptail r + 1) mod psize r) else ptail r in
  let slots' := zset (pslots r) ref {| sval := sval s; snext := INVALID_REF; spri := INVALID_PRI |} in
  ({| psize := psize r; pmax := pmax r; phead := phead r; ptail := t'; pslots := slots'; prefs := zset (prefs r) p pr' |}, Some (sval s)).

(* getReadRef(uint8_t *_priority): lowest non-empty priority *)
Fixpoint first_nonempty (refs:list pref) (i:Z) : option Z :=
  match refs with
  | [] => None
  | pr::rest => if pnext pr =? INVALID_REF then first_nonempty rest (i+1) else Some i
  end.
Definition pring_read_any (r:pring) : pring * option (Z * Z) :=
  match first_nonempty (prefs r) 0 with
  | None => (r, None)
  | Some p => let '(r', x) := pring_read_pri r p in (r', match x with Some v => Some (v, p) | None => None end)
  end.

Inductive pop := PAdd (p v:Z) | PReadPri (p:Z) | PReadAny | PClear | PCount | PIsEmpty (p:Z).
Inductive pout := QBool (b:bool) | QVal (v:option Z) | QValPri (v:option (Z*Z)) | QNum (n:Z) | QUnit.
Definition pring_step (r:pring) (o:pop) : pring * pout :=
  match o with
  | PAdd p v => let '(r', b) := pring_add r p v in (r', QBool b)
  | PReadPri p => let '(r', x) := pring_read_pri r p in (r', QVal x)
  | PReadAny => let '(r', x) := pring_read_any r in (r', QValPri x)
  | PClear => (pring_clear r, QUnit)
  | PCount => (r, QNum (pring_count r))
  | PIsEmpty p => (r, QBool (pring_is_empty r p))
  end.
Fixpoint pring_run (r:pring) (ops:list pop) : pring * list pout :=
  match ops with
  | [] => (r, [])
  | o::rest => let '(r1, x) := pring_step r o in let '(r2, xs) := pring_run r1 rest in (r2, x::xs)
  end.
