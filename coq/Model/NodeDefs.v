(* Executable model of tNMEA2000 (src/NMEA2000.cpp), part 1: types, send queue, sequence counters, SendMsg with its gate,
   fast-packet framing, ISO-TP start, address-claim start.  Definitions only.

   The outside world: the CAN driver's accept/refuse decisions are a stream (list bool, empty = accept), the clock is the
   field n_now set by the Tick operation.  Every CANSendFrame call is logged as an event with its outcome. *)
From Coq Require Import ZArith List Bool.
From N2kV Require Import Base.ListAux Model.CanId Model.Sched Model.PgnClass Gen.GenTables Gen.GenConsts.
Import ListNotations.
Local Open Scope Z_scope.

(* ---------- messages, frames, events ---------- *)
Record msg := { m_pri : Z; m_pgn : Z; m_src : Z; m_dst : Z; m_data : list Z; m_tp : bool }.
Definition m_len (m:msg) : Z := Z.of_nat (length (m_data m)).
Record frame := { f_id : Z; f_len : Z; f_data : list Z; f_wait : bool }.
Definition dframe : frame := {| f_id := 0; f_len := 0; f_data := []; f_wait := false |}.

Inductive event : Type :=
| EvTx (id len:Z) (data:list Z) (accepted:bool)      (* a CANSendFrame call and what the driver answered *)
| EvResult (b:bool)                                   (* return value of an application SendMsg *)
| EvDeliver (m:msg)                                   (* message handed to the application's handlers *)
| EvNote (code:Z).                                    (* OnOpen callback etc. *)

(* ---------- send queue (CANSendFrameBuf ring) ---------- *)
Record sring := { q_max : Z; q_rd : Z; q_wr : Z; q_buf : list frame }.
Definition sring_new (mx:Z) : sring := {| q_max := mx; q_rd := 0; q_wr := 0; q_buf := repeat dframe (Z.to_nat mx) |}.

Definition drv := list bool.
Definition can_send (d:drv) : bool * drv := match d with [] => (true, []) | b::r => (b, r) end.

(* SendFrames: flush while the driver accepts.  fuel = q_max suffices (at most q_max-1 frames are queued) *)
Fixpoint send_frames (fuel:nat) (q:sring) (d:drv) : sring * drv * list event * bool :=
  if q_max q =? 0 then (q, d, [], true) else
  match fuel with
  | O => (q, d, [], q_rd q =? q_wr q)
  | S k =>
    if q_rd q =? q_wr q then (q, d, [], true) else
    let t := (q_rd q + 1) mod q_max q in
    let f := znth (q_buf q) t dframe in
    let '(ok, d') := can_send d in
    let ev := EvTx (f_id f) (f_len f) (f_data f) ok in
    if ok then
      let '(q2, d2, evs, r) := send_frames k {| q_max := q_max q; q_rd := t; q_wr := q_wr q; q_buf := q_buf q |} d' in
      (q2, d2, ev :: evs, r)
    else (q, d', [ev], false)
  end.
Definition flush (q:sring) (d:drv) := send_frames (S (Z.to_nat (q_max q))) q d.

(* SendFrame *)
Definition send_frame (q:sring) (d:drv) (id len:Z) (data:list Z) (wait:bool) : sring * drv * list event * bool :=
  let '(q1, d1, ev1, flushed) := flush q d in
  let try_direct := if flushed then let '(ok, d2) := can_send d1 in (ok, d2, [EvTx id len (firstn (Z.to_nat len) data) ok]) else (false, d1, []) in
  let '(sent, d2, ev2) := try_direct in
  if sent then (q1, d2, ev1 ++ ev2, true) else
  if q_max q1 =? 0 then (q1, d2, ev1 ++ ev2, false) else
  let t := (q_wr q1 + 1) mod q_max q1 in
  if t =? q_rd q1 then (q1, d2, ev1 ++ ev2, false)
  else
    let len' := Z.min len 8 in
    ({| q_max := q_max q1; q_rd := q_rd q1; q_wr := t;
        q_buf := zset (q_buf q1) t {| f_id := id; f_len := len'; f_data := firstn (Z.to_nat len') data; f_wait := wait |} |},
     d2, ev1 ++ ev2, true).

(* ---------- devices and node ---------- *)
Record dev := {
  d_src : Z;                       (* N2kSource *)
  d_name : Z;                      (* DeviceInformation.GetName(), 64 bit *)
  d_claim_end : Z;                 (* AddressClaimEndSource *)
  d_claim_timer : Z;               (* tN2kScheduler AddressClaimTimer *)
  d_tx : list Z;                   (* application's extra transmit PGNs (TransmitMessages), [] if none *)
  d_cells : option (list Z);       (* PGNSequenceCounters, allocated at first use *)
  d_tp_msg : option msg;           (* PendingTPMsg (PGN != 0) *)
  d_next_dt_time : Z;              (* NextDTSendTime *)
  d_next_dt_seq : Z;               (* NextDTSequence *)
  d_has_pending : bool             (* HasPendingInformation *)
}.
Definition ddev : dev := {| d_src := 254; d_name := 0; d_claim_end := 251; d_claim_timer := 0; d_tx := []; d_cells := None;
                            d_tp_msg := None; d_next_dt_time := 0; d_next_dt_seq := 0; d_has_pending := false |}.

(* modes: 0 ListenOnly, 1 NodeOnly, 2 ListenAndNode, 3 SendOnly, 4 ListenAndSend ; open states 0 None 1 OpenCAN 2 WaitOpen 3 Open *)
Record node := {
  n_w64 : bool;                    (* scheduler build *)
  n_mode : Z;
  n_open : Z;
  n_now : Z;                       (* the 64-bit millisecond clock *)
  n_pgn : pgncfg;
  n_devs : list dev;
  n_q : sring;
  n_drv : drv;
  n_addr_changed : bool
}.

Definition upd_dev (n:node) (i:Z) (d:dev) : node :=
  {| n_w64 := n_w64 n; n_mode := n_mode n; n_open := n_open n; n_now := n_now n; n_pgn := n_pgn n; n_devs := zset (n_devs n) i d;
     n_q := n_q n; n_drv := n_drv n; n_addr_changed := n_addr_changed n |}.
Definition upd_q (n:node) (q:sring) (d:drv) : node :=
  {| n_w64 := n_w64 n; n_mode := n_mode n; n_open := n_open n; n_now := n_now n; n_pgn := n_pgn n; n_devs := n_devs n;
     n_q := q; n_drv := d; n_addr_changed := n_addr_changed n |}.
Definition get_dev (n:node) (i:Z) : dev := znth (n_devs n) i ddev.
Definition dev_count (n:node) : Z := Z.of_nat (length (n_devs n)).

Definition is_active_node (n:node) : bool := (n_mode n =? 1) || (n_mode n =? 2).
Definition is_ready_to_send (n:node) : bool := (n_open n =? 3) && negb (n_mode n =? 0) && negb (n_mode n =? 3) && negb (n_mode n =? 4).

(* UpdateAddressClaimEndSource *)
Definition claim_end_of (src:Z) : Z := if src >? 0 then src - 1 else c_N2kMaxCanBusAddress.

(* IsAddressClaimStarted(iDev): resets the timer once it has expired *)
Definition claim_started (n:node) (i:Z) : node * bool :=
  let d := get_dev n i in
  if sched_is_enabled (n_w64 n) (d_claim_timer d) then
    if sched_is_time (n_w64 n) (n_now n) (d_claim_timer d) then
      (upd_dev n i {| d_src := d_src d; d_name := d_name d; d_claim_end := claim_end_of (d_src d); d_claim_timer := sched_disabled (n_w64 n);
                      d_tx := d_tx d; d_cells := d_cells d; d_tp_msg := d_tp_msg d; d_next_dt_time := d_next_dt_time d;
                      d_next_dt_seq := d_next_dt_seq d; d_has_pending := d_has_pending d |}, false)
    else (n, true)
  else (n, false).

(* ---------- sequence counters ---------- *)
Definition fp_tx_count (n:node) (d:dev) : Z :=
  Z.of_nat (length (filter (is_fast_packet_pgn (n_pgn n)) def_transmit_messages)) + Z.of_nat (length (filter (is_fast_packet_pgn (n_pgn n)) (d_tx d))).

Definition next_sc (sc:Z) : Z := if sc + 1 >? 7 then 0 else sc + 1.
(* scan of the per-PGN cells (all but the last); None = not found *)
Fixpoint seq_scan (cells:list Z) (pgn:Z) : option (list Z * Z) :=
  match cells with
  | [] => None
  | [_] => None                               (* the last cell is the shared one *)
  | c :: rest =>
    if c =? 0 then Some (pgn :: rest, 0)
    else if Z.land c 16777215 =? pgn then let sc := next_sc (Z.shiftr c 24) in Some (Z.lor pgn (Z.shiftl sc 24) :: rest, sc)
    else match seq_scan rest pgn with Some (r', sc) => Some (c :: r', sc) | None => None end
  end.
Definition seq_shared (cells:list Z) : list Z * Z :=
  let lastv := last cells 0 in let sc := next_sc lastv in (removelast cells ++ [sc], sc).
Definition get_sequence_counter (n:node) (i:Z) (pgn:Z) : node * Z :=
  let d := get_dev n i in
  let cells := match d_cells d with Some c => c | None => repeat 0 (Z.to_nat (fp_tx_count n d + 1)) end in
  let '(cells', sc) := match seq_scan cells pgn with Some r => r | None => seq_shared cells end in
  (upd_dev n i {| d_src := d_src d; d_name := d_name d; d_claim_end := d_claim_end d; d_claim_timer := d_claim_timer d; d_tx := d_tx d;
                  d_cells := Some cells'; d_tp_msg := d_tp_msg d; d_next_dt_time := d_next_dt_time d; d_next_dt_seq := d_next_dt_seq d;
                  d_has_pending := d_has_pending d |}, sc).

(* ---------- fast-packet framing (the two loops of SendMsg, first frame padded with 0xFF after the D-01 repair) ---------- *)
Definition pad_ff (k:nat) (l:list Z) : list Z := l ++ repeat 255 (k - length l).
Definition fp_frame_count (len:Z) : Z := if len >? 6 then (len - 6 - 1) / 7 + 1 + 1 else 1.
Fixpoint fp_rest (order:Z) (i:Z) (count:nat) (data:list Z) : list (list Z) :=
  match count with
  | O => []
  | S k => (Z.lor i order :: pad_ff 7 (firstn 7 data)) :: fp_rest order (i+1) k (skipn 7 data)
  end.
Definition fp_frames (order:Z) (data:list Z) : list (list Z) :=
  let len := Z.of_nat (length data) in
  (Z.lor 0 order :: len :: pad_ff 6 (firstn 6 data)) :: fp_rest order 1 (Z.to_nat (fp_frame_count len - 1)) (skipn 6 data).

(* send the frames one by one while SendFrame succeeds *)
Fixpoint send_all (q:sring) (d:drv) (id:Z) (frames:list (list Z)) : sring * drv * list event * bool :=
  match frames with
  | [] => (q, d, [], true)
  | f :: rest =>
    let '(q1, d1, ev1, ok) := send_frame q d id 8 f true in
    if ok then let '(q2, d2, ev2, r) := send_all q1 d1 id rest in (q2, d2, ev1 ++ ev2, r)
    else (q1, d1, ev1, false)
  end.

Definition is_fast_packet (n:node) (m:msg) : bool := if m_pri m >=? 128 then false else is_fast_packet_pgn (n_pgn n) (m_pgn m).

(* ---------- SendMsg ---------- *)
(* the gate; returns the message as it will be sent (destination/source forced) and the device index used, or None = refused *)
Definition send_gate (n:node) (m:msg) (idev:Z) : node * option (msg * Z * Z) :=
  if negb (n_open n =? 3) then (n, None) else           (* Open() is modelled by the poll operation; an application send does not open *)
  if idev >=? dev_count n then (n, None) else
  let dst := if negb (Z.land (m_pgn m) 255 =? 0) then 255 else m_dst m in
  let src := if idev >=? 0 then d_src (get_dev n idev) else m_src m in
  let idev' := if idev >=? 0 then idev else 0 in
  if (src >? c_N2kMaxCanBusAddress) && negb (m_pgn m =? c_N2kPGNIsoAddressClaim) then (n, None) else
  let id := to_can_id (m_pri m) (m_pgn m) src dst in
  if id =? 0 then (n, None) else
  if n_mode n =? 0 then (n, None) else
  if m_pgn m =? 0 then (n, None) else
  let '(n1, claiming) := claim_started n idev' in
  if claiming && negb (m_pgn m =? c_N2kPGNIsoAddressClaim) then (n1, None) else
  (n1, Some ({| m_pri := m_pri m; m_pgn := m_pgn m; m_src := src; m_dst := dst; m_data := m_data m; m_tp := m_tp m |}, idev', id)).

(* everything except the ISO-TP branch *)
Definition send_msg0 (n:node) (m:msg) (idev:Z) : node * list event * bool :=
  match send_gate n m idev with
  | (n1, None) => (n1, [], false)
  | (n1, Some (m', i, id)) =>
    if (m_len m' <=? 8) && negb (is_fast_packet n1 m') then
      let '(q, d, ev, ok) := send_frame (n_q n1) (n_drv n1) id (m_len m') (m_data m') false in
      (upd_q n1 q d, ev, ok)
    else
      let '(n2, sc) := get_sequence_counter n1 i (m_pgn m') in
      let '(q, d, ev, ok) := send_all (n_q n2) (n_drv n2) id (fp_frames (Z.shiftl sc 5) (m_data m')) in
      (upd_q n2 q d, ev, ok)
  end.

(* TP.CM builders *)
Definition le_bytes (k:nat) (v:Z) : list Z := map (fun i => (v / 256 ^ (Z.of_nat i)) mod 256) (seq 0 k).
Definition tp_packets (nbytes:Z) : Z := nbytes / 7 + (if negb (nbytes mod 7 =? 0) then 1 else 0).
Definition tpcm_start (ctrl:Z) (src dst:Z) (pending:msg) : msg :=
  {| m_pri := 6; m_pgn := c_TP_CM; m_src := src; m_dst := dst;
     m_data := [ctrl] ++ le_bytes 2 (m_len pending) ++ [u8 (tp_packets (m_len pending)); 255] ++ le_bytes 3 (m_pgn pending); m_tp := false |}.

Definition set_tp (d:dev) (w64:bool) (tp:option msg) (t seqn:Z) (pend:bool) : dev :=
  {| d_src := d_src d; d_name := d_name d; d_claim_end := d_claim_end d; d_claim_timer := d_claim_timer d; d_tx := d_tx d; d_cells := d_cells d;
     d_tp_msg := tp; d_next_dt_time := t; d_next_dt_seq := seqn; d_has_pending := pend |}.

(* EndSendTPMessage: UpdateHasPendingInformation looks at the other pending schedulers, which part 1 does not have yet *)
Definition end_send_tp (n:node) (i:Z) : node :=
  let d := get_dev n i in upd_dev n i (set_tp d (n_w64 n) None (sched_disabled (n_w64 n)) (d_next_dt_seq d) false).

(* StartSendTPMessage *)
Definition start_send_tp (n:node) (m:msg) (i:Z) : node * list event * bool :=
  if negb ((0 <=? i) && (i <? dev_count n)) then (n, [], false) else
  let d := get_dev n i in
  match d_tp_msg d with
  | Some _ => (n, [], false)
  | None =>
    let n1 := upd_dev n i (set_tp d (n_w64 n) (Some m) (sched_from_now (n_w64 n) (n_now n) 50) 0 true) in
    let ctrl := if m_dst m =? 255 then c_TP_CM_BAM else c_TP_CM_RTS in
    if negb (is_active_node n1) then (end_send_tp n1 i, [], false) else
    let '(n2, ev, ok) := send_msg0 n1 (tpcm_start ctrl (d_src d) (m_dst m) m) i in
    if ok then (n2, ev, true) else (end_send_tp n2 i, ev, false)
  end.

Definition send_msg (n:node) (m:msg) (idev:Z) : node * list event * bool :=
  match send_gate n m idev with
  | (n1, None) => (n1, [], false)
  | (n1, Some (m', i, id)) =>
    if negb ((m_len m' <=? 8) && negb (is_fast_packet n1 m')) && m_tp m' then start_send_tp n1 m' i
    else send_msg0 n m idev
  end.

(* ---------- address claim start ---------- *)
Definition claim_msg (d:dev) (dst:Z) : msg :=
  {| m_pri := 6; m_pgn := c_N2kPGNIsoAddressClaim; m_src := d_src d; m_dst := dst; m_data := le_bytes 8 (d_name d); m_tp := false |}.
(* SendIsoAddressClaim(Destination, DeviceIndex) with FromNow = 0 *)
Definition send_iso_address_claim (n:node) (dst i:Z) : node * list event :=
  let i' := if (dst =? 255) && (i =? -1) then 0 else i in
  if (i' <? 0) || (i' >=? dev_count n) then (n, []) else
  let '(n1, ev, _) := send_msg n (claim_msg (get_dev n i') dst) i' in (n1, ev).
Definition set_claim_timer (n:node) (i:Z) (t:Z) : node :=
  let d := get_dev n i in
  upd_dev n i {| d_src := d_src d; d_name := d_name d; d_claim_end := d_claim_end d; d_claim_timer := t; d_tx := d_tx d; d_cells := d_cells d;
                 d_tp_msg := d_tp_msg d; d_next_dt_time := d_next_dt_time d; d_next_dt_seq := d_next_dt_seq d; d_has_pending := d_has_pending d |}.
(* StartAddressClaim(iDev) *)
Definition start_address_claim (n:node) (i:Z) : node * list event :=
  if is_ready_to_send n then
    let n1 := set_claim_timer n i (sched_disabled (n_w64 n)) in
    let '(n2, ev) := send_iso_address_claim n1 255 i in
    (set_claim_timer n2 i (sched_from_now (n_w64 n2) (n_now n2) c_N2kAddressClaimTimeout), ev)
  else (n, []).

(* ---------- operations of the send-side harness ---------- *)
Inductive op : Type :=
| OTick (dt:Z)                         (* advance the clock *)
| OAccept (pattern:list bool)          (* script the driver's next answers *)
| OSend (idev:Z) (m:msg)               (* application SendMsg *)
| OFlush                               (* SendFrames *)
| OStartClaim (idev:Z).                (* StartAddressClaim(iDev) *)

Definition set_now (n:node) (t:Z) : node :=
  {| n_w64 := n_w64 n; n_mode := n_mode n; n_open := n_open n; n_now := t; n_pgn := n_pgn n; n_devs := n_devs n; n_q := n_q n; n_drv := n_drv n;
     n_addr_changed := n_addr_changed n |}.

Definition step (n:node) (o:op) : node * list event :=
  match o with
  | OTick dt => (set_now n (n_now n + dt), [])
  | OAccept p => (upd_q n (n_q n) p, [])
  | OSend i m => let '(n1, ev, r) := send_msg n m i in (n1, ev ++ [EvResult r])
  | OFlush => let '(q, d, ev, _) := flush (n_q n) (n_drv n) in (upd_q n q d, ev)
  | OStartClaim i => if (0 <=? i) && (i <? dev_count n) then start_address_claim n i else (n, [])
  end.
Fixpoint run (n:node) (ops:list op) : node * list (list event) :=
  match ops with
  | [] => (n, [])
  | o :: rest => let '(n1, ev) := step n o in let '(n2, evs) := run n1 rest in (n2, ev :: evs)
  end.

(* a node that has been opened, whose devices hold consecutive addresses from [src0] and have finished claiming *)
Definition mk_dev (w64:bool) (src name:Z) (tx:list Z) : dev :=
  {| d_src := src; d_name := name; d_claim_end := claim_end_of src; d_claim_timer := sched_disabled w64; d_tx := tx; d_cells := None;
     d_tp_msg := None; d_next_dt_time := sched_disabled w64; d_next_dt_seq := 0; d_has_pending := false |}.
Definition opened_node (w64:bool) (mode now qmax:Z) (pc:pgncfg) (devs:list dev) : node :=
  {| n_w64 := w64; n_mode := mode; n_open := 3; n_now := now; n_pgn := pc; n_devs := devs; n_q := sring_new qmax; n_drv := []; n_addr_changed := false |}.
