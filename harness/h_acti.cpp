// Correspondence harness for C17 (Actisense format: tN2kMsg::SendInActisenseFormat and tActisenseReader).
//   ENC <pri> <pgn> <dst> <src> <time> <datahex>
//        -> "enc <hex of the bytes written to the stream | ->"
//   DEC <fill> <now> <dsrc> <ro> <cuts> <streamhex>
//        -> "dec <n> | <pri> <pgn> <dst> <src> <time> <datahex> | ... | st <coming><sot><escd> <pos> <bytesum> | skip <hex>"
//        fill  : byte value MsgBuf[] holds before the first byte arrives (the constructor leaves it uninitialised)
//        now   : virtual clock in ms (time stamp of request-type frames), dsrc : SetDefaultSource
//        ro    : ReadOut argument of GetMessageFromStream (1 = default); 2 = the one-argument call (default argument); 3 = ParseMessages() with a handler.  With 0 the reader leaves bytes that cannot belong to
//                a frame in the stream; the harness then plays the other protocol handler, removes that byte and lists it after "skip"
//        cuts  : "-" (whole stream available at once) | "e<k>" (chunks of k bytes) | "p1,p2,.." (cut positions); the reader is
//                called until it returns false with an empty stream, then the next chunk becomes available
//   RT  <pri> <pgn> <dst> <src> <time> <datahex>
//        -> "rt <n> | <pri> <pgn> <dst> <src> <time> <datahex> ..."   (SendInActisenseFormat, then a fresh reader on what was written)
//   FWD mode=<0..4> src=<addr> en=<0|1> own=<0|1> sys=<0|1> ok=<0|1> t0=<ms> [sf=p,p,..] [fp=p,p,..] | op ; op ; ...
//        the forwarding path: a tNMEA2000 (scripted CAN driver, virtual clock) whose ForwardStream is a memory stream, ForwardType
//        fwdt_Actisense; mode = tN2kMode, src = first address (SetMode), en/own/sys/ok = EnableForward / SetForwardOwnMessages /
//        SetForwardSystemMessages / SetForwardOnlyKnownMessages, sf/fp = ExtendSingleFrameMessages / ExtendFastPacketMessages.
//        The node is opened and has finished address claiming at t0 (prelude as in h_node.cpp; what the prelude forwarded is dropped).
//        ops:  R <flags> <pri> <pgn> <dst> <src> <time> <datahex> <at> <idhex:len:datahex,...>
//                  clock := max(clock, at); the CAN frames go into the driver's receive queue; ParseMessages until the queue is empty
//              S <flags> <pri> <pgn> <dst> <src> <time> <datahex> <at> <idev> <src_in> <dst_in>
//                  clock := max(clock, at); SendMsg(tN2kMsg{pri, pgn, Source=src_in, Destination=dst_in, MsgTime=time, data}, idev)
//              (<flags> = own/known/system as the case generator expects them and the message fields before <at> are what the
//               generator expects to be forwarded: they are for the model; this harness uses only the frames resp. the SendMsg arguments)
//        -> "fwd <hex written to the forward stream by this op | -> <n> | <pri> <pgn> <dst> <src> <time> <datahex> ... ; <next op> ..."
//           n and the messages are what ONE tActisenseReader attached to the forward stream for the whole case reports after the op
// The received tN2kMsg lives in an exact-size heap object between guard bytes; after every call DataLen and the members behind
// Data[] are checked ("canary ..." in the result if something was overwritten).  Out of bounds accesses abort (ASan / UBSan bounds).
#include "hcommon.h"
#include <new>
#include "N2kMsg.h"
#include "N2kStream.h"
#include "ActisenseReader.h"
#include "NMEA2000.h"
#include <deque>
#include <map>

struct MemStream : public N2kStream {
  std::vector<uint8_t> in; size_t rp = 0, avail = 0;
  std::vector<uint8_t> out;
  int read() { return rp < avail ? in[rp++] : -1; }
  int peek() { return rp < avail ? in[rp] : -1; }
  size_t write(const uint8_t *d, size_t n) { out.insert(out.end(), d, d + n); return n; }
};

struct Guarded { uint8_t pre[16]; tN2kMsg m; uint8_t post[16]; };

static std::string msg_text(const tN2kMsg &m) {
  char b[128];
  snprintf(b, sizeof b, " | %u %lu %u %u %lu ", (unsigned)m.Priority, m.PGN, (unsigned)m.Destination, (unsigned)m.Source, m.MsgTime);
  return std::string(b) + hex(m.Data, (size_t)m.DataLen);
}

static std::vector<size_t> cut_list(const std::string &c, size_t n) {
  std::vector<size_t> v;
  if (c == "-") { v.push_back(n); return v; }
  if (c[0] == 'e') { size_t k = (size_t)tounum(c.substr(1)); if (k == 0) k = 1; for (size_t p = k; p < n; p += k) v.push_back(p); v.push_back(n); return v; }
  std::stringstream ss(c); std::string t; size_t last = 0;
  while (std::getline(ss, t, ',')) { size_t p = (size_t)tounum(t); if (p > n) p = n; if (p >= last) { v.push_back(p); last = p; } }
  v.push_back(n);
  return v;
}

// run a reader over the stream; appends the reported messages to [res]; returns the number of messages
static std::string *g_pm_res = 0; static int *g_pm_n = 0;
static void pm_handler(const tN2kMsg &m) { if (g_pm_res) { *g_pm_res += msg_text(m); (*g_pm_n)++; } }
// ro: 0 / 1 = ReadOut argument given explicitly; 2 = GetMessageFromStream(msg) with its default argument; 3 = ParseMessages() with a handler
static int decode(MemStream &ms, const std::string &cuts, int fill, unsigned dsrc, int ro, std::string &res, std::string &tail) {
  tActisenseReader *rd = new tActisenseReader();
  memset(rd->MsgBuf, fill, sizeof rd->MsgBuf);
  rd->SetDefaultSource((unsigned char)dsrc);
  rd->SetReadStream(&ms);
  Guarded *g = (Guarded *)malloc(sizeof(Guarded));
  memset(g->pre, 0xC3, sizeof g->pre); memset(g->post, 0xC3, sizeof g->post);
  new (&g->m) tN2kMsg();
  std::vector<uint8_t> skipped;
  std::string canary;
  int n = 0;
  std::vector<size_t> cl = cut_list(cuts, ms.in.size());
  // the chunks reach the reader through two stream objects in turn (SetReadStream before each chunk, as an application does that wraps every
  // received network packet in its own stream): a frame goes on across the change of the object (seed C17-21)
  MemStream alt = ms; MemStream *cur = &ms;
  for (size_t ci = 0; ci < cl.size(); ci++) {
    MemStream *nxt = (ci % 2 == 1) ? &alt : &ms;
    if (nxt != cur) { nxt->rp = cur->rp; cur = nxt; rd->SetReadStream(cur); }
    cur->avail = cl[ci];
    for (;;) {
      size_t before = cur->rp;
      g->m.TPMessage = false;
      if (ro == 3) { g_pm_res = &res; g_pm_n = &n; rd->SetMsgHandler(pm_handler); rd->ParseMessages(); g_pm_res = 0; if (cur->rp < cur->avail && cur->rp == before) cur->rp = cur->avail; break; }
      bool got = ro == 2 ? rd->GetMessageFromStream(g->m) : rd->GetMessageFromStream(g->m, ro != 0);
      for (size_t k = 0; k < 16; k++) if (g->pre[k] != 0xC3 || g->post[k] != 0xC3) canary = " canary guard-bytes";
      if (g->m.TPMessage) canary = " canary TPMessage";
      if (g->m.DataLen < 0 || g->m.DataLen > tN2kMsg::MaxDataLen) { canary = " canary DataLen"; g->m.DataLen = 0; }
      if (rd->MsgWritePos < 0 || rd->MsgWritePos > MAX_STREAM_MSG_BUF_LEN) canary = " canary MsgWritePos";
      if (got) { n++; res += msg_text(g->m); continue; }
      if (cur->rp < cur->avail) {                       // only with ro=0: a byte was left for another protocol
        if (cur->rp == before) { skipped.push_back(cur->in[cur->rp]); cur->rp++; }
        continue;
      }
      break;
    }
  }
  char b[96];
  snprintf(b, sizeof b, " | st %d%d%d %d %d", (int)rd->MsgIsComing, (int)rd->StartOfTextReceived, (int)rd->EscapeReceived, rd->MsgWritePos, rd->byteSum);
  tail = std::string(b) + " | skip " + hex(skipped.data(), skipped.size()) + canary;
  free(g);
  delete rd;
  return n;
}

static void fill_msg(tN2kMsg &m, const std::vector<std::string> &t, size_t k) {
  m.Priority = (unsigned char)tounum(t[k]); m.PGN = tounum(t[k + 1]); m.Destination = (unsigned char)tounum(t[k + 2]);
  m.Source = (unsigned char)tounum(t[k + 3]); m.MsgTime = tounum(t[k + 4]);
  std::vector<uint8_t> d = unhex(t[k + 5]);
  if (d.size() > (size_t)tN2kMsg::MaxDataLen) d.resize(tN2kMsg::MaxDataLen);
  m.DataLen = (int)d.size(); if (!d.empty()) memcpy(m.Data, d.data(), d.size());
}

// ---------------------------------------------------------------------------------------------------------------------------
// FWD: the forwarding path of tNMEA2000
struct FwdFrame { unsigned long id; unsigned char len; unsigned char buf[8]; };
class FwdNode : public tNMEA2000 {
public:
  std::deque<FwdFrame> rx;
  bool CANSendFrame(unsigned long id, unsigned char len, const unsigned char *buf, bool wait_sent) override { return true; }
  bool CANOpen() override { return true; }
  bool CANGetFrame(unsigned long &id, unsigned char &len, unsigned char *buf) override {
    if (rx.empty()) return false;
    FwdFrame f = rx.front(); rx.pop_front();
    id = f.id; len = f.len; memcpy(buf, f.buf, 8);
    return true;
  }
};

static unsigned long *fwd_plist(const std::string &v) {
  std::vector<unsigned long> *l = new std::vector<unsigned long>();   // referenced by the node, not copied
  std::stringstream ss(v); std::string x;
  while (std::getline(ss, x, ',')) if (!x.empty()) l->push_back(strtoul(x.c_str(), 0, 10));
  l->push_back(0);
  return l->data();
}

// the application of every forwarding case is a gateway: its message handler passes each received message on to a second bus object
// (SendMsg rewrites the mutable Source / Destination of the object it is given) - what the library forwards in Actisense format must
// still be the message as it was received (seed C17-16)
static FwdNode *g_gw = 0;
static void gw_handler(const tN2kMsg &m) { if (g_gw) g_gw->SendMsg(m); }

static void run_fwd(const std::string &line) {
  size_t bar = line.find('|');
  if (bar == std::string::npos) { printf("badcase\n"); return; }
  std::vector<std::string> cfg = split(line.substr(3, bar - 3));
  std::map<std::string, std::string> kv;
  for (auto &c : cfg) { size_t e = c.find('='); if (e != std::string::npos) kv[c.substr(0, e)] = c.substr(e + 1); }
  int mode = atoi(kv["mode"].c_str()), src = atoi(kv["src"].c_str());
  uint64_t t0 = strtoull(kv["t0"].c_str(), 0, 10);
  if (mode < 0 || mode > 4 || t0 < 1000) { printf("badcase\n"); return; }

  verif_now_ms = t0 - 1000;
  FwdNode *n = new FwdNode();
  MemStream *fs = new MemStream();                      // the forward stream
  n->SetN2kCANSendFrameBufSize(100);
  if (kv.count("sf")) n->ExtendSingleFrameMessages(fwd_plist(kv["sf"]));
  if (kv.count("fp")) n->ExtendFastPacketMessages(fwd_plist(kv["fp"]));
  n->SetMode((tNMEA2000::tN2kMode)mode, (uint8_t)src);
  n->SetForwardStream(fs);
  n->SetForwardType(tNMEA2000::fwdt_Actisense);
  n->EnableForward(kv["en"] == "1");
  n->SetForwardOwnMessages(kv["own"] == "1");
  n->SetForwardSystemMessages(kv["sys"] == "1");
  n->SetForwardOnlyKnownMessages(kv["ok"] == "1");
  FwdNode *gw = new FwdNode();
  gw->SetN2kCANSendFrameBufSize(100);
  gw->SetMode(tNMEA2000::N2km_NodeOnly, 50);
  gw->SetForwardStream(0);
  for (int k = 0; k < 700; k++) { n->ParseMessages(); gw->ParseMessages(); verif_now_ms++; }
  gw->SetHeartbeatIntervalAndOffset(0, 0);
  g_gw = gw;
  n->SetMsgHandler(gw_handler);
  n->SetHeartbeatIntervalAndOffset(0, 0);
  n->IsAddressClaimStarted(0);
  verif_now_ms = t0;
  fs->out.clear();
  if (n->OpenState != tNMEA2000::os_Open) { printf("fwd notopen\n"); return; }

  // one reader on the forward stream for the whole case
  MemStream rs;
  tActisenseReader *rd = new tActisenseReader();
  memset(rd->MsgBuf, 0, sizeof rd->MsgBuf);
  rd->SetDefaultSource(65);
  rd->SetReadStream(&rs);
  Guarded *g = (Guarded *)malloc(sizeof(Guarded));
  memset(g->pre, 0xC3, sizeof g->pre); memset(g->post, 0xC3, sizeof g->post);
  new (&g->m) tN2kMsg();

  std::string out = "fwd";
  std::stringstream ops(line.substr(bar + 1)); std::string opstr; bool first = true;
  while (std::getline(ops, opstr, ';')) {
    std::vector<std::string> t = split(opstr);
    if (t.empty()) continue;
    out += first ? " " : " ; "; first = false;
    if (t[0] == "R" && t.size() >= 10) {
      uint64_t at = tounum(t[8]); if (at > verif_now_ms) verif_now_ms = at;
      std::stringstream fr(t[9]); std::string f1;
      while (std::getline(fr, f1, ',')) {
        size_t c1 = f1.find(':'), c2 = f1.find(':', c1 + 1);
        if (c1 == std::string::npos || c2 == std::string::npos) continue;
        FwdFrame f; f.id = strtoul(f1.substr(0, c1).c_str(), 0, 16); f.len = (unsigned char)atoi(f1.substr(c1 + 1, c2 - c1 - 1).c_str());
        std::vector<uint8_t> d = unhex(f1.substr(c2 + 1)); memset(f.buf, 0, 8); for (size_t i = 0; i < d.size() && i < 8; i++) f.buf[i] = d[i];
        n->rx.push_back(f);
      }
      do { n->ParseMessages(); } while (!n->rx.empty());
    } else if (t[0] == "S" && t.size() >= 12) {
      uint64_t at = tounum(t[8]); if (at > verif_now_ms) verif_now_ms = at;
      tN2kMsg m; fill_msg(m, t, 2);
      m.Source = (unsigned char)tounum(t[10]); m.Destination = (unsigned char)tounum(t[11]);
      m.SetIsTPMessage(false);
      n->SendMsg(m, atoi(t[9].c_str()));
    } else { out += "badop"; continue; }
    // what this op wrote to the forward stream, and what the reader makes of it
    out += hex(fs->out.data(), fs->out.size());
    rs.in.insert(rs.in.end(), fs->out.begin(), fs->out.end()); rs.avail = rs.in.size();
    fs->out.clear();
    int cnt = 0; std::string res, canary;
    for (;;) {
      g->m.TPMessage = false;
      bool got = rd->GetMessageFromStream(g->m, true);
      for (size_t k = 0; k < 16; k++) if (g->pre[k] != 0xC3 || g->post[k] != 0xC3) canary = " canary guard-bytes";
      if (g->m.TPMessage) canary = " canary TPMessage";
      if (g->m.DataLen < 0 || g->m.DataLen > tN2kMsg::MaxDataLen) { canary = " canary DataLen"; g->m.DataLen = 0; }
      if (rd->MsgWritePos < 0 || rd->MsgWritePos > MAX_STREAM_MSG_BUF_LEN) canary = " canary MsgWritePos";
      if (got) { cnt++; res += msg_text(g->m); continue; }
      if (rs.rp < rs.avail) continue;
      break;
    }
    char b[32]; snprintf(b, sizeof b, " %d", cnt);
    out += b; out += res; out += canary;
  }
  printf("%s\n", out.c_str());
  free(g);
  delete rd;
  g_gw = 0;
  // the node is deliberately not destroyed: tNMEA2000 has no destructor that releases its buffers
}

int main() {
  std::string line;
  while (std::getline(std::cin, line)) {
    std::vector<std::string> t = split(line);
    if (t.empty()) { printf("skip\n"); fflush(stdout); continue; }
    if (t[0] == "FWD") { run_fwd(line); fflush(stdout); continue; }
    if (t[0] == "ENC" && t.size() >= 7) {
      tN2kMsg m; fill_msg(m, t, 1);
      MemStream ms;
      m.SendInActisenseFormat(&ms);
      printf("enc %s\n", hex(ms.out.data(), ms.out.size()).c_str());
    } else if (t[0] == "DEC" && t.size() >= 7) {
      int fill = (int)tounum(t[1]); verif_now_ms = tounum(t[2]); unsigned dsrc = (unsigned)tounum(t[3]); int ro = (int)tounum(t[4]);
      MemStream ms; ms.in = unhex(t[6]);
      std::string res, tail;
      int n = decode(ms, t[5], fill, dsrc, ro, res, tail);
      printf("dec %d%s%s\n", n, res.c_str(), tail.c_str());
    } else if (t[0] == "RT" && t.size() >= 7) {
      tN2kMsg m; fill_msg(m, t, 1);
      MemStream ms;
      verif_now_ms = 0;
      m.SendInActisenseFormat(&ms);
      ms.in = ms.out;
      std::string res, tail;
      int n = decode(ms, "-", 0, 65, true, res, tail);
      printf("rt %d%s%s\n", n, res.c_str(), tail.find("canary") != std::string::npos ? " canary" : "");
    } else printf("badcase\n");
    fflush(stdout);
  }
  return 0;
}
