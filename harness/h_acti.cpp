// Correspondence harness for C17 (Actisense format: tN2kMsg::SendInActisenseFormat and tActisenseReader).
//   ENC <pri> <pgn> <dst> <src> <time> <datahex>
//        -> "enc <hex of the bytes written to the stream | ->"
//   DEC <fill> <now> <dsrc> <ro> <cuts> <streamhex>
//        -> "dec <n> | <pri> <pgn> <dst> <src> <time> <datahex> | ... | st <coming><sot><escd> <pos> <bytesum> | skip <hex>"
//        fill  : byte value MsgBuf[] holds before the first byte arrives (the constructor leaves it uninitialised)
//        now   : virtual clock in ms (time stamp of request-type frames), dsrc : SetDefaultSource
//        ro    : ReadOut argument of GetMessageFromStream (1 = default).  With 0 the reader leaves bytes that cannot belong to
//                a frame in the stream; the harness then plays the other protocol handler, removes that byte and lists it after "skip"
//        cuts  : "-" (whole stream available at once) | "e<k>" (chunks of k bytes) | "p1,p2,.." (cut positions); the reader is
//                called until it returns false with an empty stream, then the next chunk becomes available
//   RT  <pri> <pgn> <dst> <src> <time> <datahex>
//        -> "rt <n> | <pri> <pgn> <dst> <src> <time> <datahex> ..."   (SendInActisenseFormat, then a fresh reader on what was written)
// The received tN2kMsg lives in an exact-size heap object between guard bytes; after every call DataLen and the members behind
// Data[] are checked ("canary ..." in the result if something was overwritten).  Out of bounds accesses abort (ASan / UBSan bounds).
#include "hcommon.h"
#include <new>
#include "N2kMsg.h"
#include "N2kStream.h"
#include "ActisenseReader.h"

struct MemStream : public N2kStream {
  std::vector<uint8_t> in; size_t rp = 0, avail = 0;
  std::vector<uint8_t> out;
  int read() { return rp < avail ? in[rp++] : -1; }
  int peek() { return rp < avail ? in[rp] : -1; }
  size_t write(const uint8_t *d, size_t n) { out.insert(out.end(), d, d + n); return n; }
};

struct Guarded { uint8_t pre[16]; tN2kMsg m; uint8_t post[16]; };

static std::string msg_text(const tN2kMsg &m) {
  char b[128];
  snprintf(b, sizeof b, " | %u %lu %u %u %lu ", (unsigned)m.Priority, m.PGN, (unsigned)m.Destination, (unsigned)m.Source, m.MsgTime);
  return std::string(b) + hex(m.Data, (size_t)m.DataLen);
}

static std::vector<size_t> cut_list(const std::string &c, size_t n) {
  std::vector<size_t> v;
  if (c == "-") { v.push_back(n); return v; }
  if (c[0] == 'e') { size_t k = (size_t)tounum(c.substr(1)); if (k == 0) k = 1; for (size_t p = k; p < n; p += k) v.push_back(p); v.push_back(n); return v; }
  std::stringstream ss(c); std::string t; size_t last = 0;
  while (std::getline(ss, t, ',')) { size_t p = (size_t)tounum(t); if (p > n) p = n; if (p >= last) { v.push_back(p); last = p; } }
  v.push_back(n);
  return v;
}

// run a reader over the stream; appends the reported messages to [res]; returns the number of messages
static int decode(MemStream &ms, const std::string &cuts, int fill, unsigned dsrc, bool ro, std::string &res, std::string &tail) {
  tActisenseReader *rd = new tActisenseReader();
  memset(rd->MsgBuf, fill, sizeof rd->MsgBuf);
  rd->SetDefaultSource((unsigned char)dsrc);
  rd->SetReadStream(&ms);
  Guarded *g = (Guarded *)malloc(sizeof(Guarded));
  memset(g->pre, 0xC3, sizeof g->pre); memset(g->post, 0xC3, sizeof g->post);
  new (&g->m) tN2kMsg();
  std::vector<uint8_t> skipped;
  std::string canary;
  int n = 0;
  std::vector<size_t> cl = cut_list(cuts, ms.in.size());
  for (size_t ci = 0; ci < cl.size(); ci++) {
    ms.avail = cl[ci];
    for (;;) {
      size_t before = ms.rp;
      g->m.TPMessage = false;
      bool got = rd->GetMessageFromStream(g->m, ro);
      for (size_t k = 0; k < 16; k++) if (g->pre[k] != 0xC3 || g->post[k] != 0xC3) canary = " canary guard-bytes";
      if (g->m.TPMessage) canary = " canary TPMessage";
      if (g->m.DataLen < 0 || g->m.DataLen > tN2kMsg::MaxDataLen) { canary = " canary DataLen"; g->m.DataLen = 0; }
      if (rd->MsgWritePos < 0 || rd->MsgWritePos > MAX_STREAM_MSG_BUF_LEN) canary = " canary MsgWritePos";
      if (got) { n++; res += msg_text(g->m); continue; }
      if (ms.rp < ms.avail) {                       // only with ro=0: a byte was left for another protocol
        if (ms.rp == before) { skipped.push_back(ms.in[ms.rp]); ms.rp++; }
        continue;
      }
      break;
    }
  }
  char b[96];
  snprintf(b, sizeof b, " | st %d%d%d %d %d", (int)rd->MsgIsComing, (int)rd->StartOfTextReceived, (int)rd->EscapeReceived, rd->MsgWritePos, rd->byteSum);
  tail = std::string(b) + " | skip " + hex(skipped.data(), skipped.size()) + canary;
  free(g);
  delete rd;
  return n;
}

static void fill_msg(tN2kMsg &m, const std::vector<std::string> &t, size_t k) {
  m.Priority = (unsigned char)tounum(t[k]); m.PGN = tounum(t[k + 1]); m.Destination = (unsigned char)tounum(t[k + 2]);
  m.Source = (unsigned char)tounum(t[k + 3]); m.MsgTime = tounum(t[k + 4]);
  std::vector<uint8_t> d = unhex(t[k + 5]);
  if (d.size() > (size_t)tN2kMsg::MaxDataLen) d.resize(tN2kMsg::MaxDataLen);
  m.DataLen = (int)d.size(); if (!d.empty()) memcpy(m.Data, d.data(), d.size());
}

int main() {
  std::string line;
  while (std::getline(std::cin, line)) {
    std::vector<std::string> t = split(line);
    if (t.empty()) { printf("skip\n"); fflush(stdout); continue; }
    if (t[0] == "ENC" && t.size() >= 7) {
      tN2kMsg m; fill_msg(m, t, 1);
      MemStream ms;
      m.SendInActisenseFormat(&ms);
      printf("enc %s\n", hex(ms.out.data(), ms.out.size()).c_str());
    } else if (t[0] == "DEC" && t.size() >= 7) {
      int fill = (int)tounum(t[1]); verif_now_ms = tounum(t[2]); unsigned dsrc = (unsigned)tounum(t[3]); bool ro = tounum(t[4]) != 0;
      MemStream ms; ms.in = unhex(t[6]);
      std::string res, tail;
      int n = decode(ms, t[5], fill, dsrc, ro, res, tail);
      printf("dec %d%s%s\n", n, res.c_str(), tail.c_str());
    } else if (t[0] == "RT" && t.size() >= 7) {
      tN2kMsg m; fill_msg(m, t, 1);
      MemStream ms;
      verif_now_ms = 0;
      m.SendInActisenseFormat(&ms);
      ms.in = ms.out;
      std::string res, tail;
      int n = decode(ms, "-", 0, 65, true, res, tail);
      printf("rt %d%s%s\n", n, res.c_str(), tail.find("canary") != std::string::npos ? " canary" : "");
    } else printf("badcase\n");
    fflush(stdout);
  }
  return 0;
}
