// Correspondence harness for the node-level properties (C01, C04, C11, ... ): a tNMEA2000 with a scripted CAN driver and a
// virtual clock.  One case per line:
//   NODE mode=<0..4> ndev=<n> src=<first address> q=<send frame buf size, before the *ndev of InitDevices> slots=<n> t0=<ms>
//        [fp0=p,p,..] [fp1=..] [sf0=..] [sf1=..] [tx<i>=p,p,..] [hb=<0|1>] [cold=1] | op ; op ; ...
//   further configuration keys: iso=p,p (application ISO request handler) ok=1 fwd=<bits> noconf=1 early=1 rx<i>=..
//        conf=<hex inst1>,<hex inst2>,<hex manuf> / pconf=.. (SetConfigurationInformation / SetProgmemConfigurationInformation; "-" = empty string,
//        "~" = null pointer)   prod=<hex model>,<hex sw>,<hex version>,<hex serial> (SetProductInformation, strings)   pprod=.. (the same by
//        pointer to a tProductInformation)   copen=<ms>[,<failures>] (CANOpen() takes <ms> of virtual time and fails the first <failures> times;
//        outside the model: oracle-only families)
//   ops:  T <dt> | A <pattern of 0/1> | S <idev> <pri> <pgn> <src> <dst> <tp 0/1> <datahex> | F | C <idev>
//         P (ParseMessages) | R <idhex> <len> <8 bytes hex>  (frame into the driver's receive queue)
//         H <interval> [<offset> [idev]] (SetHeartbeatIntervalAndOffset; omitted arguments = the header's defaults) | Z <which> <v> (sizing / address setters after initialisation)
//   public calls of the application (coq/Model/ApiDefs.v):
//         Q ac <dst> <idev> <delay> (SendIsoAddressClaim) | Q pi <idev> (SendProductInformation) | Q ci <idev> (SendConfigurationInformation)
//         Q tx|rx <dst> <idev> <tp> (SendTxPGNList / SendRxPGNList) | Q hb <force> (SendHeartbeat(bool)) | Q hd <idev> (SendHeartbeat(int))
//         Q hi <interval> <idev> (deprecated SetHeartbeatInterval) | I <idev> <lower> <upper> <system> (SetDeviceInformationInstances)
//         D <idev> <unique> <function> <class> <manufacturer> <industry> (SetDeviceInformation) | X (Restart) | M <mode> <source> (SetMode after initialisation)
//         L <which 0..3> <p,p,..|-> (Set/ExtendSingleFrameMessages, Set/ExtendFastPacketMessages at run time)
//         W t|r <idev> <p,p,..|-> (ExtendTransmitMessages / ExtendReceiveMessages)   O <which 0..4> <0|1> (SetHandleOnlyKnownMessages, SetForwardOnlyKnownMessages,
//         SetForwardSystemMessages, SetForwardOwnMessages, EnableForward)   K s|p <hex model> <hex sw> <hex version> <hex serial> (SetProductInformation by strings / by pointer)
// Output: for every op its events (tx:<id>:<len>:<data>:<accepted> res:<0/1> dlv:... note:...) separated by " ; ", then " | " and a
// dump of internal state (read through -fno-access-control).
// Unless cold=1 the node is opened and has finished address claiming before the ops start (prelude with an accepting driver).
#include "hcommon.h"
#pragma GCC diagnostic ignored "-Wdeprecated-declarations"   // the deprecated alias SetHeartbeatInterval is exercised on purpose
#include "NMEA2000.h"
#include "N2kMessages.h"
#include <deque>
#include <map>
#include <sys/mman.h>
#include <sys/wait.h>
#include <unistd.h>

// Arrays the library indexes with values derived from bus traffic (Devices[iDev], N2kCANMsgBuf[i], CANSendFrameBuf[i]) are moved,
// right after the library allocated and initialised them, into a mapping that is fenced by inaccessible pages, so that an index of
// -1 (Devices: start abuts the fence) or == count (others: end abuts the fence) faults deterministically instead of silently reading
// a neighbouring heap object.  The objects are plain data (no self references), so a byte copy relocates them.
static std::vector<std::pair<void *, size_t> > g_maps;       // unmapped at the end of the case
static void *fenced_copy(const void *src, size_t bytes, bool fence_at_start) {
  size_t pg = (size_t)sysconf(_SC_PAGESIZE);
  size_t body = ((bytes + pg - 1) / pg) * pg;
  char *m = (char *)mmap(0, body + 2 * pg, PROT_READ | PROT_WRITE, MAP_PRIVATE | MAP_ANONYMOUS, -1, 0);
  if (m == MAP_FAILED) return 0;
  g_maps.push_back(std::make_pair((void *)m, body + 2 * pg));
  mprotect(m, pg, PROT_NONE); mprotect(m + pg + body, pg, PROT_NONE);
  char *dst = fence_at_start ? m + pg : m + pg + body - bytes;
  memcpy(dst, src, bytes);
  return dst;
}

struct RxFrame { unsigned long id; unsigned char len; unsigned char buf[8]; };
static std::string *g_out = 0;
static bool g_log = false;

class tMock : public tNMEA2000 {
public:
  std::deque<bool> accept;
  std::deque<RxFrame> rx;
  bool CANSendFrame(unsigned long id, unsigned char len, const unsigned char *buf, bool wait_sent) override {
    bool ok = true;
    if (!accept.empty()) { ok = accept.front(); accept.pop_front(); }
    verif_now_ms += tx_ms;      // txms=<ms>: a driver whose CANSendFrame() blocks for <ms> of (virtual) time.  Outside the model (oracle-only family)
    if (g_log && g_out) {
      char t[64]; snprintf(t, 64, "tx:%lx:%u:", id, (unsigned)len); *g_out += t;
      *g_out += hex(buf, len > 8 ? 8 : len); *g_out += ok ? ":1 " : ":0 ";
    }
    return ok;
  }
  // copen=<ms>[,<failures>]: the driver's CANOpen() takes <ms> of (virtual) time and fails the first <failures> times.  Outside the model
  // (whose CANOpen is instantaneous and succeeds): used by oracle-only families
  unsigned copen_ms = 0; int copen_fails = 0; bool copen_cfg = false; unsigned tx_ms = 0;
  bool CANOpen() override {
    verif_now_ms += copen_ms;
    bool ok = true;
    if (copen_fails > 0) { copen_fails--; ok = false; }
    if (copen_cfg && g_log && g_out) { char t[48]; snprintf(t, 48, "note:canopen:%d ", ok ? 1 : 0); *g_out += t; }
    return ok;
  }
  int taken = 0;            // frames handed to the library since the counter was last cleared
  bool CANGetFrame(unsigned long &id, unsigned char &len, unsigned char *buf) override {
    if (rx.empty()) return false;
    taken++;
    RxFrame f = rx.front(); rx.pop_front();
    id = f.id; len = f.len; memcpy(buf, f.buf, 8);     // all 8 bytes are written: bytes beyond len are driver garbage chosen by the case
    return true;
  }
};

static void *g_dev = 0, *g_slots = 0, *g_sendbuf = 0;
static void relocate(tMock *n, int ndev) {
  if (n->Devices && (void *)n->Devices != g_dev) { void *p = fenced_copy(n->Devices, sizeof(tNMEA2000::tInternalDevice) * ndev, true); if (p) { n->Devices = (tNMEA2000::tInternalDevice *)p; g_dev = p; } }
  if (n->N2kCANMsgBuf && (void *)n->N2kCANMsgBuf != g_slots) { void *p = fenced_copy(n->N2kCANMsgBuf, sizeof(tN2kCANMsg) * n->MaxN2kCANMsgs, false); if (p) { n->N2kCANMsgBuf = (tN2kCANMsg *)p; g_slots = p; } }
  if (n->CANSendFrameBuf && (void *)n->CANSendFrameBuf != g_sendbuf) { void *p = fenced_copy(n->CANSendFrameBuf, sizeof(tNMEA2000::tCANSendFrame) * n->MaxCANSendFrames, false); if (p) { n->CANSendFrameBuf = (tNMEA2000::tCANSendFrame *)p; g_sendbuf = p; } }
}

static void handle_msg(const tN2kMsg &m) {
  if (g_log && g_out) {
    char t[96]; snprintf(t, 96, "dlv:%u:%lu:%u:%u:%d:", (unsigned)m.Priority, m.PGN, (unsigned)m.Source, (unsigned)m.Destination, m.DataLen); *g_out += t;
    *g_out += hex(m.Data, (m.DataLen >= 0 && m.DataLen <= 223) ? m.DataLen : 0); *g_out += " ";
  }
}
// gfapp=1: the application installs its own catch-all group function handler (PGN 0) that declines everything: the library's handlers
// behind it answer as if it were not there
class tDeclineAll : public tN2kGroupFunctionHandler {
public:
  tDeclineAll(tNMEA2000 *p) : tN2kGroupFunctionHandler(p, 0) {}
  // (a group function that names PGN 0 itself "matches" a PGN-0 handler and ends the walk there: for that one the handler does what the library's
  //  own default handler - the same class - does)
  bool Handle(const tN2kMsg &m, tN2kGroupFunctionCode c, unsigned long pgn, int idev) override { return pgn == 0 ? tN2kGroupFunctionHandler::Handle(m, c, pgn, idev) : false; }
};
static tNMEA2000 *g_onopen_node = 0; static uint32_t g_onopen_iv = 0, g_onopen_off = 0;
// appsched=<period>,<offset>: the application's own tN2kSyncScheduler, given its period and offset in the OnOpen callback (the documented
// use: schedules synchronised to the moment of Open()); the harness polls it after every operation and logs note:7 when it fires
static tN2kSyncScheduler g_app; static bool g_app_on = false; static uint32_t g_app_period = 0, g_app_offset = 0;
static void on_open() {
  if (g_log && g_out) *g_out += "note:open ";
  if (g_app_on) g_app.SetPeriodAndOffset(g_app_period, g_app_offset);
  if (g_onopen_node) g_onopen_node->SetHeartbeatIntervalAndOffset(g_onopen_iv, g_onopen_off);    // onopen=: the application configures the heartbeat from its OnOpen callback
}
static std::vector<unsigned long> g_iso_accept;
static bool iso_handler(unsigned long pgn, unsigned char requester, int idev) {
  for (unsigned long p : g_iso_accept) if (p == pgn) { if (g_log && g_out) { char t[48]; snprintf(t, 48, "note:iso:%lu ", pgn); *g_out += t; } return true; }
  return false;
}

static std::vector<unsigned long> *plist(const std::string &v) {
  std::vector<unsigned long> *l = new std::vector<unsigned long>();   // lives as long as the node (lists are referenced, not copied)
  std::stringstream ss(v); std::string x;
  while (std::getline(ss, x, ',')) if (!x.empty()) l->push_back(strtoul(x.c_str(), 0, 10));
  l->push_back(0);
  return l;
}

static std::string sched(tN2kScheduler &s) { char t[32]; if (s.IsDisabled()) return "off"; snprintf(t, 32, "%llu", (unsigned long long)s.NextTime); return t; }


static void run_case(const std::string &line);

int main() {
  std::string line;
  while (std::getline(std::cin, line)) {
#if !defined(ESP_PLATFORM)
    // 32-bit scheduler build: N2kMillis64() keeps a roll counter in function-local statics, so every case gets a fresh process
    fflush(stdout);
    pid_t pid = fork();
    if (pid == 0) { run_case(line); fflush(stdout); _exit(0); }
    int st = 0; waitpid(pid, &st, 0);
    if (!(WIFEXITED(st) && WEXITSTATUS(st) == 0)) { printf("crash %s\n", WIFSIGNALED(st) ? "signal" : "sanitizer"); fflush(stdout); }
#else
    run_case(line);
#endif
  }
  return 0;
}

static void run_case(const std::string &line) {
  {
    size_t bar = line.find('|');
    if (line.compare(0, 4, "NODE") != 0 || bar == std::string::npos) { printf("badcase\n"); fflush(stdout); return; }
    std::vector<std::string> cfg = split(line.substr(4, bar - 4));
    std::map<std::string, std::string> kv;
    for (auto &c : cfg) { size_t e = c.find('='); if (e != std::string::npos) kv[c.substr(0, e)] = c.substr(e + 1); }
    int mode = atoi(kv["mode"].c_str()), ndev = atoi(kv["ndev"].c_str()), src = atoi(kv["src"].c_str());
    int q = kv.count("q") ? atoi(kv["q"].c_str()) : 40, slots = kv.count("slots") ? atoi(kv["slots"].c_str()) : 5;
    uint64_t t0 = strtoull(kv["t0"].c_str(), 0, 10);
    bool cold = kv.count("cold") && kv["cold"] == "1";
    std::string out; g_out = &out; g_log = false;

    verif_now_ms = cold ? t0 : t0 - 1000;
    tN2kSyncScheduler::SyncOffset = 0;                  // static of the library: every case starts like a fresh process
    tMock *n = new tMock();
    n->SetDeviceCount(ndev);
    n->SetN2kCANSendFrameBufSize(q);
    n->SetN2kCANMsgBufSize(slots);
    if (kv.count("fp0")) n->SetFastPacketMessages(plist(kv["fp0"])->data());
    if (kv.count("fp1")) n->ExtendFastPacketMessages(plist(kv["fp1"])->data());
    if (kv.count("sf0")) n->SetSingleFrameMessages(plist(kv["sf0"])->data());
    if (kv.count("sf1")) n->ExtendSingleFrameMessages(plist(kv["sf1"])->data());
    // early=1: the application calls Open() before any of the configuration calls that create the device table (legal: the call order is
    // not prescribed).  Only used for opened starts (cold=0): the prelude's first poll happens at the same clock value.
    if (kv.count("early") && kv["early"] == "1" && !cold) n->Open();
    n->SetMode((tNMEA2000::tN2kMode)mode, src);
    for (int i = 0; i < ndev; i++) { char k[16]; snprintf(k, 16, "tx%d", i); if (kv.count(k)) n->ExtendTransmitMessages(plist(kv[k])->data(), i); }
    relocate(n, ndev);
    for (int i = 0; i < ndev; i++) { char k[16]; snprintf(k, 16, "rx%d", i); if (kv.count(k)) n->ExtendReceiveMessages(plist(kv[k])->data(), i); }
    if (kv.count("txms")) n->tx_ms = (unsigned)atoi(kv["txms"].c_str());
    if (kv.count("copen")) { n->copen_cfg = true; n->copen_ms = (unsigned)atoi(kv["copen"].c_str()); size_t c = kv["copen"].find(','); if (c != std::string::npos) n->copen_fails = atoi(kv["copen"].substr(c + 1).c_str()); }
    if (kv.count("ok") && kv["ok"] == "1") n->SetHandleOnlyKnownMessages(true);
    if (kv.count("iso")) { std::vector<unsigned long> *l = plist(kv["iso"]); g_iso_accept.assign(l->begin(), l->end() - 1); n->SetISORqstHandler(iso_handler); }
    if (kv.count("noconf") && kv["noconf"] == "1") n->SetProgmemConfigurationInformation(0, 0, 0);   // no configuration information at all
    if (kv.count("fwd")) {            // forwarding options (no forward stream is attached): they must not change what is handled or delivered
      int f = atoi(kv["fwd"].c_str());
      if (f & 1) n->SetForwardOnlyKnownMessages(true);
      if (f & 2) n->SetForwardSystemMessages(true);
      if (f & 4) n->SetForwardOwnMessages(true);
      if (f & 8) n->EnableForward(false);
    }
    if (kv.count("prod")) {          // prod=<hex model id>,<hex software code>,<hex model version>,<hex serial code>: SetProductInformation (device 0), exact-size heap strings
      std::vector<char *> st;
      std::string c = kv["prod"]; size_t pos = 0;
      while (st.size() < 4) {
        size_t e = c.find(',', pos); std::string h = c.substr(pos, e == std::string::npos ? std::string::npos : e - pos);
        if (h == "-") h = "";
        char *b = (char *)malloc(h.size() / 2 + 1);
        for (size_t i = 0; i + 1 < h.size(); i += 2) b[i / 2] = (char)strtoul(h.substr(i, 2).c_str(), 0, 16);
        b[h.size() / 2] = 0; st.push_back(b);
        if (e == std::string::npos) break;
        pos = e + 1;
      }
      if (st.size() == 4) n->SetProductInformation(st[3], 666, st[0], st[1], st[2], 1, 2101, 0);
      for (size_t i = 0; i < st.size(); i++) free(st[i]);
    }
    if (kv.count("pprod")) {         // pprod=<hex model id>,<hex software code>,<hex model version>,<hex serial code>: SetProductInformation(const tProductInformation *)
      std::vector<std::string> st;  // (the pointer variant: the library keeps the pointer and builds PGN 126996 with SetN2kPGN126996Progmem)
      std::string c = kv["pprod"]; size_t pos = 0;
      while (st.size() < 4) {
        size_t e = c.find(',', pos); std::string h = c.substr(pos, e == std::string::npos ? std::string::npos : e - pos);
        if (h == "-") h = "";
        std::string b;
        for (size_t i = 0; i + 1 < h.size(); i += 2) b.push_back((char)strtoul(h.substr(i, 2).c_str(), 0, 16));
        st.push_back(b);
        if (e == std::string::npos) break;
        pos = e + 1;
      }
      if (st.size() == 4) {
        tNMEA2000::tProductInformation *pi = new tNMEA2000::tProductInformation();     // lives as long as the node
        pi->Set(st[3].c_str(), 666, st[0].c_str(), st[1].c_str(), st[2].c_str(), 1, 2101, 0);
        n->SetProductInformation(pi);
      }
    }
    // both given: pconf first, conf second - or, with cthenp=1, the other way round (a local copy exists when the constant strings are installed)
    bool cthenp = kv.count("cthenp") && kv["cthenp"] == "1";
    for (int pass = 0; pass < 2; pass++) {
    if ((pass == 0) != cthenp) {
    if (kv.count("pconf")) {         // pconf=<hex inst1>,<hex inst2>,<hex manufacturer>: SetProgmemConfigurationInformation (the strings stay where they are: never freed)
      std::vector<char *> st;
      std::string c = kv["pconf"]; size_t pos = 0;
      while (st.size() < 3) {
        size_t e = c.find(',', pos); std::string h = c.substr(pos, e == std::string::npos ? std::string::npos : e - pos);
        if (h == "~") { st.push_back((char *)0); if (e == std::string::npos) break; pos = e + 1; continue; }   // ~ = null pointer
        if (h == "-") h = "";
        char *b = (char *)malloc(h.size() / 2 + 1);
        for (size_t i = 0; i + 1 < h.size(); i += 2) b[i / 2] = (char)strtoul(h.substr(i, 2).c_str(), 0, 16);
        b[h.size() / 2] = 0; st.push_back(b);
        if (e == std::string::npos) break;
        pos = e + 1;
      }
      if (st.size() == 3) n->SetProgmemConfigurationInformation(st[2], st[0], st[1]);
    }
    } else {
    if (kv.count("conf")) {          // conf=<hex inst1>,<hex inst2>,<hex manufacturer> ("-" = empty): SetConfigurationInformation with exact-size heap strings
      std::vector<char *> st;
      std::string c = kv["conf"]; size_t pos = 0;
      while (st.size() < 3) {
        size_t e = c.find(',', pos); std::string h = c.substr(pos, e == std::string::npos ? std::string::npos : e - pos);
        if (h == "~") { st.push_back((char *)0); if (e == std::string::npos) break; pos = e + 1; continue; }   // ~ = null pointer (the string is not given)
        if (h == "-") h = "";
        char *b = (char *)malloc(h.size() / 2 + 1);
        for (size_t i = 0; i + 1 < h.size(); i += 2) b[i / 2] = (char)strtoul(h.substr(i, 2).c_str(), 0, 16);
        b[h.size() / 2] = 0; st.push_back(b);
        if (e == std::string::npos) break;
        pos = e + 1;
      }
      if (st.size() == 3) n->SetConfigurationInformation(st[2], st[0], st[1]);
      for (size_t i = 0; i < st.size(); i++) free(st[i]);
    }
    }
    }
    bool hb = kv.count("hb") && kv["hb"] == "1";
    // short=1: every public call is made with the shortest argument list whose omitted arguments equal the defaults the header documents
    // (written out here), so that the default arguments of the header are part of what is compared with the model
    bool shortc = kv.count("short") && kv["short"] == "1";
    // onopen=<interval>,<offset>: the application configures the heartbeat from its SetOnOpen callback (the last thing Open() does)
    g_onopen_node = 0;
    if (kv.count("gfapp") && kv["gfapp"] == "1") n->AddGroupFunctionHandler(new tDeclineAll(n));
    g_app_on = false; g_app.Disable();
    if (kv.count("appsched")) { size_t c = kv["appsched"].find(','); if (c != std::string::npos) { g_app_period = (uint32_t)tounum(kv["appsched"].substr(0, c)); g_app_offset = (uint32_t)tounum(kv["appsched"].substr(c + 1)); g_app_on = true; } }
    if (kv.count("onopen")) { size_t c = kv["onopen"].find(','); if (c != std::string::npos) { g_onopen_iv = (uint32_t)tounum(kv["onopen"].substr(0, c)); g_onopen_off = (uint32_t)tounum(kv["onopen"].substr(c + 1)); g_onopen_node = n; } }
    n->SetMsgHandler(handle_msg);
    n->SetOnOpen(on_open);
    n->SetForwardStream(0);
    if (!cold) {
      for (int k = 0; k < 700; k++) { n->ParseMessages(); relocate(n, ndev); verif_now_ms++; }
      if (!hb) n->SetHeartbeatIntervalAndOffset(0, 0);   // heartbeat off unless the case asks for it
      for (int i = 0; i < ndev; i++) n->IsAddressClaimStarted(i);
      verif_now_ms = t0;
    }
    g_log = true;

    std::stringstream ops(line.substr(bar + 1)); std::string opstr; bool first = true;
    while (std::getline(ops, opstr, ';')) {
      std::vector<std::string> t = split(opstr);
      if (!first) out += "; "; first = false;
      if (t.empty()) continue;
      if (t[0] == "T") verif_now_ms += strtoull(t[1].c_str(), 0, 10);
      else if (t[0] == "A") { n->accept.clear(); if (t.size() > 1) for (char c : t[1]) n->accept.push_back(c == '1'); }
      else if (t[0] == "S" && t.size() >= 8) {
        // one long-lived message object that the application re-initialises with Init() for every send (the usual pattern of a periodic
        // sender): Init() starts an empty message whatever the object was used for before, including the ISO-TP mark (seed C01-16)
        static tN2kMsg m;
        m.Init((unsigned char)tounum(t[2]), tounum(t[3]), (unsigned char)tounum(t[4]), (unsigned char)tounum(t[5]));
        if (t[6] == "1") {
          // the ISO-TP mark is set last, or - every other time - first, before SetPGN(): it belongs to the object, not to the payload, and
          // survives the filling of the message (seed C10-17)
          static unsigned tpk = 0;
          if ((tpk++ & 1) != 0) { m.SetIsTPMessage(); m.SetPGN(tounum(t[3])); } else m.SetIsTPMessage();
        }
        m.Priority = (unsigned char)tounum(t[2]);      // the raw field value of the case (Init keeps the low 3 bits only)
        memset(m.Data, 0xEE, sizeof(m.Data));           // stale payload bytes beyond DataLen must never reach the bus
        std::vector<uint8_t> d = unhex(t[7]); m.DataLen = (int)d.size(); if (!d.empty()) memcpy(m.Data, d.data(), d.size());
        int sd = atoi(t[1].c_str());
        bool r = (shortc && sd == 0) ? n->SendMsg(m) : n->SendMsg(m, sd);
        out += r ? "res:1 " : "res:0 ";
      }
      else if (t[0] == "F") n->SendFrames();
      else if (t[0] == "C") { int i = atoi(t[1].c_str()); if (i >= 0 && i < ndev) n->StartAddressClaim(i); }
      else if (t[0] == "P") {
        n->taken = 0;
        bool wasopen = (n->OpenState == tNMEA2000::os_Open);      // while the node waits for the open delay, Open() empties the driver queue on purpose
        n->ParseMessages();
        // the property's bound: one ParseMessages call of an open node consumes at most 20 frames (the model never emits this note)
        if (wasopen && n->taken > 20 && g_log && g_out) { char b[40]; snprintf(b, 40, "note:rxover:%d ", n->taken); *g_out += b; }
      }
      else if (t[0] == "Z" && t.size() >= 3) {          // a sizing call after initialisation: documented to have no effect
        int which = atoi(t[1].c_str()); unsigned v = (unsigned)tounum(t[2]);
        if (which == 0) n->SetN2kCANSendFrameBufSize((uint16_t)v);
        else if (which == 1) n->SetN2kCANMsgBufSize((uint8_t)v);
        else if (which == 2) n->SetDeviceCount((uint8_t)v);
        else if (which == 3) n->SetN2kCANReceiveFrameBufSize((uint16_t)v);
        else n->SetN2kSource((unsigned char)v, which - 4);      // which = 4 + device index: address setter after initialisation (ignored)
      }
      // public calls an application may make at run time (Model/ApiDefs.v); the sending ones are used on open nodes only
      else if (t[0] == "Q" && t.size() >= 3) {
        const std::string &k = t[1];
        if (k == "ac" && t.size() >= 5) {
          unsigned char d = (unsigned char)tounum(t[2]); int i = atoi(t[3].c_str()); unsigned long fn = (unsigned long)tounum(t[4]);
          if (shortc && fn == 0 && i == 0 && d == 0xff) n->SendIsoAddressClaim();
          else if (shortc && fn == 0 && i == 0) n->SendIsoAddressClaim(d);
          else if (shortc && fn == 0) n->SendIsoAddressClaim(d, i);
          else n->SendIsoAddressClaim(d, i, fn);
        }
        else if (k == "pi") { int i = atoi(t[2].c_str()); if (shortc && i == 0) n->SendProductInformation(); else n->SendProductInformation(i); }
        else if (k == "ci") { int i = atoi(t[2].c_str()); if (shortc && i == 0) n->SendConfigurationInformation(); else n->SendConfigurationInformation(i); }
        else if (k == "tx" && t.size() >= 5) { if (shortc && t[4] != "1") n->SendTxPGNList((unsigned char)tounum(t[2]), atoi(t[3].c_str())); else n->SendTxPGNList((unsigned char)tounum(t[2]), atoi(t[3].c_str()), t[4] == "1"); }
        else if (k == "rx" && t.size() >= 5) { if (shortc && t[4] != "1") n->SendRxPGNList((unsigned char)tounum(t[2]), atoi(t[3].c_str())); else n->SendRxPGNList((unsigned char)tounum(t[2]), atoi(t[3].c_str()), t[4] == "1"); }
        else if (k == "hb") { if (shortc && t[2] != "1") n->SendHeartbeat(); else n->SendHeartbeat((bool)(t[2] == "1")); }
        else if (k == "hd") n->SendHeartbeat((int)atoi(t[2].c_str()));
        else if (k == "hi" && t.size() >= 4) n->SetHeartbeatInterval((unsigned long)tounum(t[2]), true, atoi(t[3].c_str()));
        else out += "badop ";
      }
      else if (t[0] == "I" && t.size() >= 5) {
        uint8_t lo = (uint8_t)tounum(t[2]), up = (uint8_t)tounum(t[3]), si = (uint8_t)tounum(t[4]); int i = atoi(t[1].c_str());
        if (shortc && i == 0 && si == 0xff && up == 0xff && lo == 0xff) n->SetDeviceInformationInstances();
        else if (shortc && i == 0 && si == 0xff && up == 0xff) n->SetDeviceInformationInstances(lo);
        else if (shortc && i == 0 && si == 0xff) n->SetDeviceInformationInstances(lo, up);
        else if (shortc && i == 0) n->SetDeviceInformationInstances(lo, up, si);
        else n->SetDeviceInformationInstances(lo, up, si, i);
      }
      else if (t[0] == "D" && t.size() >= 7) {
        unsigned long u = (unsigned long)tounum(t[2]); unsigned char f = (unsigned char)tounum(t[3]), c = (unsigned char)tounum(t[4]), g = (unsigned char)tounum(t[6]);
        uint16_t mf = (uint16_t)tounum(t[5]); int i = atoi(t[1].c_str());
        if (shortc && i == 0 && g == 4 && mf == 0xffff && c == 0xff && f == 0xff) n->SetDeviceInformation(u);
        else if (shortc && i == 0 && g == 4 && mf == 0xffff && c == 0xff) n->SetDeviceInformation(u, f);
        else if (shortc && i == 0 && g == 4 && mf == 0xffff) n->SetDeviceInformation(u, f, c);
        else if (shortc && i == 0 && g == 4) n->SetDeviceInformation(u, f, c, mf);
        else if (shortc && i == 0) n->SetDeviceInformation(u, f, c, mf, g);
        else n->SetDeviceInformation(u, f, c, mf, g, i);
      }
      else if (t[0] == "X") n->Restart();
      else if (t[0] == "L" && t.size() >= 3) {          // PGN list setters at run time; the list lives as long as the node
        int which = atoi(t[1].c_str()); const unsigned long *l = plist(t[2] == "-" ? std::string("") : t[2])->data();
        if (which == 0) n->SetSingleFrameMessages(l); else if (which == 1) n->ExtendSingleFrameMessages(l);
        else if (which == 2) n->SetFastPacketMessages(l); else if (which == 3) n->ExtendFastPacketMessages(l);
      }
      else if (t[0] == "W" && t.size() >= 4) {          // ExtendTransmitMessages / ExtendReceiveMessages at run time
        const unsigned long *l = plist(t[3] == "-" ? std::string("") : t[3])->data();
        if (t[1] == "t") n->ExtendTransmitMessages(l, atoi(t[2].c_str())); else n->ExtendReceiveMessages(l, atoi(t[2].c_str()));
      }
      else if (t[0] == "O" && t.size() >= 3) {          // handling / forwarding options at run time
        int which = atoi(t[1].c_str()); bool b = t[2] == "1";
        if (shortc && b) { if (which == 0) n->SetHandleOnlyKnownMessages(); else if (which == 1) n->SetForwardOnlyKnownMessages(); else if (which == 2) n->SetForwardSystemMessages(); else if (which == 3) n->SetForwardOwnMessages(); else n->EnableForward(); }
        else if (which == 0) n->SetHandleOnlyKnownMessages(b); else if (which == 1) n->SetForwardOnlyKnownMessages(b);
        else if (which == 2) n->SetForwardSystemMessages(b); else if (which == 3) n->SetForwardOwnMessages(b); else n->EnableForward(b);
      }
      else if (t[0] == "K" && t.size() >= 6) {          // SetProductInformation at run time: K s|p <hex model> <hex sw> <hex version> <hex serial>
        std::string s[4];
        bool nul[4];       // ~ = the string is not given (null pointer): the field is left empty
        for (int k = 0; k < 4; k++) { nul[k] = t[2 + k] == "~"; std::string h = (t[2 + k] == "-" || nul[k]) ? std::string("") : t[2 + k]; for (size_t i = 0; i + 1 < h.size(); i += 2) s[k].push_back((char)strtoul(h.substr(i, 2).c_str(), 0, 16)); }
        if (t[1] == "p") { tNMEA2000::tProductInformation *pi = new tNMEA2000::tProductInformation(); pi->Set(s[3].c_str(), 666, s[0].c_str(), s[1].c_str(), s[2].c_str(), 1, 2101, 0); n->SetProductInformation(pi); }
        else {
          char *b[4]; for (int k = 0; k < 4; k++) { b[k] = (char *)malloc(s[k].size() + 1); memcpy(b[k], s[k].c_str(), s[k].size() + 1); }   // exact-size heap strings
          n->SetProductInformation(nul[3] ? 0 : b[3], 666, nul[0] ? 0 : b[0], nul[1] ? 0 : b[1], nul[2] ? 0 : b[2], 1, 2101, 0);
          for (int k = 0; k < 4; k++) free(b[k]);
        }
      }
      else if (t[0] == "M" && t.size() >= 3) { if (shortc && tounum(t[2]) == 15) n->SetMode((tNMEA2000::tN2kMode)atoi(t[1].c_str())); else n->SetMode((tNMEA2000::tN2kMode)atoi(t[1].c_str()), (uint8_t)tounum(t[2])); }
      else if (t[0] == "H" && t.size() == 2) n->SetHeartbeatIntervalAndOffset((uint32_t)tounum(t[1]));                          // the header's default offset and device
      else if (t[0] == "H" && t.size() == 3) n->SetHeartbeatIntervalAndOffset((uint32_t)tounum(t[1]), (uint32_t)tounum(t[2]));  // the header's default device
      else if (t[0] == "H" && t.size() >= 4) {
        uint32_t iv = (uint32_t)tounum(t[1]), off = (uint32_t)tounum(t[2]); int i = atoi(t[3].c_str());
        if (shortc && i == -1 && off == 0) n->SetHeartbeatIntervalAndOffset(iv); else if (shortc && i == -1) n->SetHeartbeatIntervalAndOffset(iv, off); else n->SetHeartbeatIntervalAndOffset(iv, off, i);
      }
      else if (t[0] == "R" && t.size() >= 4) {
        RxFrame f; f.id = strtoul(t[1].c_str(), 0, 16); f.len = (unsigned char)atoi(t[2].c_str());
        std::vector<uint8_t> d = unhex(t[3]); memset(f.buf, 0, 8); for (size_t i = 0; i < d.size() && i < 8; i++) f.buf[i] = d[i];
        n->rx.push_back(f);
      }
      else out += "badop ";
      if (g_app_on && g_app.IsTime()) { g_app.UpdateNextTime(); out += "note:7 "; }
      relocate(n, ndev);
    }
    g_log = false;
    // state dump
    char b[256];
    if (n->CANSendFrameBuf) snprintf(b, 256, "| open=%d q=%u/%u/%u", (int)n->OpenState, (unsigned)n->MaxCANSendFrames, (unsigned)n->CANSendFrameBufferRead, (unsigned)n->CANSendFrameBufferWrite);
    else snprintf(b, 256, "| open=%d q=-", (int)n->OpenState);
    out += b;
    // the three indications as the application reads them (destructive reads: this is the final dump of the case)
    snprintf(b, 256, " ac=%d dic=%d idc=%d", (int)n->ReadResetAddressChanged(), (int)n->ReadResetDeviceInformationChanged(), (int)n->ReadResetInstallationDescriptionChanged()); out += b;
    for (int i = 0; i < ndev && n->Devices; i++) {
      tNMEA2000::tInternalDevice &d = n->Devices[i];
      snprintf(b, 256, " dev%d{src=%u end=%u name=%llx claim=%s tp=%lu dt=%u pc=%s pp=%s pf=%s hb=", i, (unsigned)d.N2kSource, (unsigned)d.AddressClaimEndSource,
               (unsigned long long)d.DeviceInformation.GetName(), sched(d.AddressClaimTimer).c_str(), d.PendingTPMsg.PGN, (unsigned)d.NextDTSequence,
               sched(d.PendingIsoAddressClaim).c_str(), sched(d.PendingProductInformation).c_str(), sched(d.PendingConfigurationInformation).c_str()); out += b;
      if (d.HeartbeatScheduler.IsDisabled()) snprintf(b, 256, "off"); else snprintf(b, 256, "%llu", (unsigned long long)d.HeartbeatScheduler.GetNextTime()); out += b;
      snprintf(b, 256, "/%u/%u/%u cells=", (unsigned)d.HeartbeatScheduler.GetPeriod(), (unsigned)d.HeartbeatScheduler.GetOffset(), (unsigned)d.HeartbeatSequence); out += b;
      if (d.PGNSequenceCounters == 0) out += "none"; else for (size_t k = 0; k < d.MaxPGNSequenceCounters; k++) { snprintf(b, 256, "%s%lx", k ? "," : "", d.PGNSequenceCounters[k]); out += b; }
      out += "}";
    }
    out += " slots[";
    for (int i = 0; n->N2kCANMsgBuf && i < n->MaxN2kCANMsgs; i++) {
      tN2kCANMsg &c = n->N2kCANMsgBuf[i];
      if (c.FreeMsg) continue;
      snprintf(b, 256, "%d:%lu:%u:%u:%d:%d:%u:%u:%lu:%u:%u ", i, c.N2kMsg.PGN, (unsigned)c.N2kMsg.Source, (unsigned)c.N2kMsg.Destination, (int)c.N2kMsg.IsTPMessage(), c.N2kMsg.DataLen,
               (unsigned)c.CopiedLen, (unsigned)c.LastFrame, c.N2kMsg.MsgTime, (unsigned)c.TPMaxPackets, (unsigned)c.TPRequireCTS); out += b;
    }
    out += "]";
    printf("%s\n", out.c_str());
    fflush(stdout);
    // the node is deliberately not destroyed: tNMEA2000 has no destructor that releases its buffers; the fenced copies of its arrays are
    // released (the node object is never used again)
    for (size_t i = 0; i < g_maps.size(); i++) munmap(g_maps[i].first, g_maps[i].second);
    g_maps.clear(); g_dev = g_slots = g_sendbuf = 0;
  }
}
