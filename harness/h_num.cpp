// Correspondence harness for C06 (scaled numeric fields of tN2kMsg).  Doubles/floats travel as IEEE bit patterns.
//   SETD n s vbits pbits                      -> "<bytes>"                (AddNByte[U]Double, default UndefVal)
//   GETD n s pbits defbits idx datalen data   -> "<resultbits> <idx'>"    (GetNByte[U]Double)
//   RTD  n s vbits pbits                      -> "<bytes> <resultbits>"   (set, then get with def=NA)
//   SETB n s vbits pbits (free function SetBufNByte[U]Double) / RTU n s vbits pbits ubits (AddNByte[U]Double with UndefVal = u, read back with default u)
//   SETF vbits32 / GETF defbits32 idx datalen data (raw float field)
//   SETI kind value / GETI kind def idx datalen data   kind in b, i2, u2, i3, u3, u4, u8
#include "hcommon.h"
#include "N2kMsg.h"
#include <math.h>

static double d_of(const std::string &s) { uint64_t b = strtoull(s.c_str(), 0, 16); double d; memcpy(&d, &b, 8); return d; }
static float f_of(const std::string &s) { uint32_t b = (uint32_t)strtoul(s.c_str(), 0, 16); float d; memcpy(&d, &b, 4); return d; }
static std::string bits(double d) { if (d != d) return "nan"; uint64_t b; memcpy(&b, &d, 8); char t[20]; snprintf(t, 20, "%016llx", (unsigned long long)b); return t; }
static std::string bitsf(float d) { if (d != d) return "nan"; uint32_t b; memcpy(&b, &d, 4); char t[20]; snprintf(t, 20, "%08x", b); return t; }

static void fill(tN2kMsg &m, int datalen, const std::vector<uint8_t> &d) {
  m.Clear(); m.PGN = 1;
  memset(m.Data, 0x5A, sizeof(m.Data));               // bytes beyond DataLen are garbage the getters must not use
  for (size_t i = 0; i < d.size() && i < sizeof(m.Data); i++) m.Data[i] = d[i];
  m.DataLen = datalen;
}
static void addd(tN2kMsg &m, int n, bool s, double v, double p) {
  switch (n) {
    case 1: if (s) m.Add1ByteDouble(v, p); else m.Add1ByteUDouble(v, p); break;
    case 2: if (s) m.Add2ByteDouble(v, p); else m.Add2ByteUDouble(v, p); break;
    case 3: if (s) m.Add3ByteDouble(v, p); else m.Add3ByteUDouble(v, p); break;
    case 4: if (s) m.Add4ByteDouble(v, p); else m.Add4ByteUDouble(v, p); break;
    case 8: m.Add8ByteDouble(v, p); break;
  }
}
static double getd(const tN2kMsg &m, int n, bool s, double p, int &idx, double def) {
  switch (n) {
    case 1: return s ? m.Get1ByteDouble(p, idx, def) : m.Get1ByteUDouble(p, idx, def);
    case 2: return s ? m.Get2ByteDouble(p, idx, def) : m.Get2ByteUDouble(p, idx, def);
    case 3: return s ? m.Get3ByteDouble(p, idx, def) : m.Get3ByteUDouble(p, idx, def);
    case 4: return s ? m.Get4ByteDouble(p, idx, def) : m.Get4ByteUDouble(p, idx, def);
    case 8: return m.Get8ByteDouble(p, idx, def);
  }
  return 0;
}

int main() {
  std::string line;
  while (std::getline(std::cin, line)) {
    std::vector<std::string> t = split(line);
    tN2kMsg m; m.Clear(); m.PGN = 1; m.DataLen = 0;
    if (t.empty()) printf("skip\n");
    else if (t[0] == "SETD" && t.size() == 5) {
      addd(m, atoi(t[1].c_str()), t[2] == "s", d_of(t[3]), d_of(t[4]));
      printf("%s\n", hex(m.Data, m.DataLen).c_str());
    } else if (t[0] == "SETB" && t.size() == 5) {          // the free function SetBufNByte[U]Double on an exact-size heap buffer
      int n = atoi(t[1].c_str()); bool s = t[2] == "s"; double v = d_of(t[3]), p = d_of(t[4]);
      unsigned char *b = (unsigned char *)malloc(n); int idx = 0;
      switch (n) {
        case 1: if (s) SetBuf1ByteDouble(v, p, idx, b); else SetBuf1ByteUDouble(v, p, idx, b); break;
        case 2: if (s) SetBuf2ByteDouble(v, p, idx, b); else SetBuf2ByteUDouble(v, p, idx, b); break;
        case 3: if (s) SetBuf3ByteDouble(v, p, idx, b); else SetBuf3ByteUDouble(v, p, idx, b); break;
        case 4: if (s) SetBuf4ByteDouble(v, p, idx, b); else SetBuf4ByteUDouble(v, p, idx, b); break;
        case 8: SetBuf8ByteDouble(v, p, idx, b); break;
      }
      printf("%s\n", idx == n ? hex(b, n).c_str() : "badindex"); free(b);
    } else if (t[0] == "RTU" && t.size() == 6) {            // AddNByte[U]Double with a caller-chosen UndefVal, read back with that value as default
      int n = atoi(t[1].c_str()); bool s = t[2] == "s"; double v = d_of(t[3]), p = d_of(t[4]), u = d_of(t[5]);
      switch (n) {
        case 1: if (s) m.Add1ByteDouble(v, p, u); else m.Add1ByteUDouble(v, p, u); break;
        case 2: if (s) m.Add2ByteDouble(v, p, u); else m.Add2ByteUDouble(v, p, u); break;
        case 3: if (s) m.Add3ByteDouble(v, p, u); else m.Add3ByteUDouble(v, p, u); break;
        case 4: if (s) m.Add4ByteDouble(v, p, u); else m.Add4ByteUDouble(v, p, u); break;
        case 8: m.Add8ByteDouble(v, p, u); break;
      }
      int idx = 0; double r = getd(m, n, s, p, idx, u);
      printf("%s %s\n", hex(m.Data, m.DataLen).c_str(), bits(r).c_str());
    } else if (t[0] == "RTD" && t.size() == 5) {
      int n = atoi(t[1].c_str()); bool s = t[2] == "s"; double p = d_of(t[4]);
      addd(m, n, s, d_of(t[3]), p);
      int idx = 0; double r = getd(m, n, s, p, idx, N2kDoubleNA);
      printf("%s %s\n", hex(m.Data, m.DataLen).c_str(), bits(r).c_str());
    } else if (t[0] == "GETD" && t.size() == 8) {
      int n = atoi(t[1].c_str()); bool s = t[2] == "s"; double p = d_of(t[3]), def = d_of(t[4]);
      int idx = atoi(t[5].c_str()); fill(m, atoi(t[6].c_str()), unhex(t[7]));
      double r = getd(m, n, s, p, idx, def);
      printf("%s %d\n", bits(r).c_str(), idx);
    } else if (t[0] == "SETF" && t.size() == 2) {
      m.AddFloat(f_of(t[1])); printf("%s\n", hex(m.Data, m.DataLen).c_str());
    } else if (t[0] == "GETF" && t.size() == 5) {
      int idx = atoi(t[2].c_str()); fill(m, atoi(t[3].c_str()), unhex(t[4]));
      float r = m.GetFloat(idx, f_of(t[1])); printf("%s %d\n", bitsf(r).c_str(), idx);
    } else if (t[0] == "SETI" && t.size() == 3) {
      const std::string &k = t[1]; long long v = tonum(t[2]); unsigned long long u = tounum(t[2]);
      if (k == "b") m.AddByte((unsigned char)u); else if (k == "i2") m.Add2ByteInt((int16_t)v); else if (k == "u2") m.Add2ByteUInt((uint16_t)u);
      else if (k == "i3") m.Add3ByteInt((int32_t)v); else if (k == "u4") m.Add4ByteUInt((uint32_t)u); else if (k == "u8") m.AddUInt64(u);
      printf("%s\n", hex(m.Data, m.DataLen).c_str());
    } else if (t[0] == "GETI" && t.size() == 6) {
      const std::string &k = t[1]; unsigned long long def = tounum(t[2]); long long sdef = tonum(t[2]);
      int idx = atoi(t[3].c_str()); fill(m, atoi(t[4].c_str()), unhex(t[5]));
      if (k == "b") { unsigned r = m.GetByte(idx); printf("%u %d\n", r, idx); }
      else if (k == "i2") { int r = m.Get2ByteInt(idx, (int16_t)sdef); printf("%d %d\n", r, idx); }
      else if (k == "u2") { unsigned r = m.Get2ByteUInt(idx, (uint16_t)def); printf("%u %d\n", r, idx); }
      else if (k == "u3") { uint32_t r = m.Get3ByteUInt(idx, (uint32_t)def); printf("%u %d\n", r, idx); }
      else if (k == "u4") { uint32_t r = m.Get4ByteUInt(idx, (uint32_t)def); printf("%u %d\n", r, idx); }
      else if (k == "u8") { uint64_t r = m.GetUInt64(idx, def); printf("%llu %d\n", (unsigned long long)r, idx); }
      else printf("badcase\n");
    } else printf("badcase\n");
    fflush(stdout);
  }
  return 0;
}
