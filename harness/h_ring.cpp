// Correspondence harness for C20 (tRingBuffer / tPriorityRingBuffer).  One case = one operation sequence on a fresh ring.
//   PLAIN <size> ops...     ops: a<v> add  A<v> getAddRef+store  r read  R getReadRef  p peek  c clear  n count  e isEmpty
//   PRIO <size> <maxp> ops  ops: a<p>:<v> add  A<p>:<v> getAddRef  r read(T&)  R getReadRef(&pri)  q<p> getReadRef(pri)  c  n  e<p>
// output: one token per op, then "| head tail"
#include "hcommon.h"
#include "RingBuffer.h"

int main() {
  std::string line;
  while (std::getline(std::cin, line)) {
    std::vector<std::string> t = split(line);
    std::string out;
    char b[64];
    if (t.size() >= 2 && t[0] == "PLAIN") {
      tRingBuffer<uint32_t> *r = new tRingBuffer<uint32_t>((uint16_t)tounum(t[1]));
      for (size_t i = 2; i < t.size(); i++) {
        const std::string &o = t[i];
        uint32_t v = o.size() > 1 ? (uint32_t)tounum(o.substr(1)) : 0;
        switch (o[0]) {
          case 'a': out += r->add(v) ? "1 " : "0 "; break;
          case 'A': { uint32_t *p = r->getAddRef(); if (p) { *p = v; out += "1 "; } else out += "0 "; break; }
          case 'r': { uint32_t x; if (r->read(x)) { snprintf(b, 64, "%u ", x); out += b; } else out += "- "; break; }
          case 'R': { const uint32_t *p = r->getReadRef(); if (p) { snprintf(b, 64, "%u ", *p); out += b; } else out += "- "; break; }
          case 'p': { uint32_t *p = r->peek(); if (p) { snprintf(b, 64, "%u ", *p); out += b; } else out += "- "; break; }
          case 'c': r->clear(); out += ". "; break;
          case 'n': snprintf(b, 64, "%u ", (unsigned)r->count()); out += b; break;
          case 'e': out += r->isEmpty() ? "1 " : "0 "; break;
          default: out += "? ";
        }
      }
      snprintf(b, 64, "| %u %u", (unsigned)r->head, (unsigned)r->tail); out += b;
      delete r;
    } else if (t.size() >= 3 && t[0] == "PRIO") {
      tPriorityRingBuffer<uint32_t> *r = new tPriorityRingBuffer<uint32_t>((uint16_t)tounum(t[1]), (uint8_t)tounum(t[2]));
      for (size_t i = 3; i < t.size(); i++) {
        const std::string &o = t[i];
        unsigned p = 0; uint32_t v = 0;
        if (o.size() > 1) { size_t c = o.find(':'); p = (unsigned)tounum(o.substr(1, c == std::string::npos ? std::string::npos : c - 1)); if (c != std::string::npos) v = (uint32_t)tounum(o.substr(c + 1)); }
        switch (o[0]) {
          // an argument equal to the documented default is left out (priority 0 for the adds, 0xff = whole buffer for isEmpty): the header's defaults are compared too
          case 'a': out += (p == 0 ? r->add(v) : r->add(v, (uint8_t)p)) ? "1 " : "0 "; break;
          case 'A': { uint32_t *q = (p == 0 ? r->getAddRef() : r->getAddRef((uint8_t)p)); if (q) { *q = v; out += "1 "; } else out += "0 "; break; }
          case 'r': { uint32_t x; if (r->read(x)) { snprintf(b, 64, "%u ", x); out += b; } else out += "- "; break; }
          case 'R': { uint8_t pr = 77; const uint32_t *q = r->getReadRef(&pr); if (q) { snprintf(b, 64, "%u:%u ", *q, (unsigned)pr); out += b; } else out += "- "; break; }
          case 'q': { const uint32_t *q = r->getReadRef((uint8_t)p); if (q) { snprintf(b, 64, "%u ", *q); out += b; } else out += "- "; break; }
          case 'c': r->clear(); out += ". "; break;
          case 'n': snprintf(b, 64, "%u ", (unsigned)r->count()); out += b; break;
          case 'e': out += (p == 0xff ? r->isEmpty() : r->isEmpty((uint8_t)p)) ? "1 " : "0 "; break;
          default: out += "? ";
        }
      }
      snprintf(b, 64, "| %u %u", (unsigned)r->head, (unsigned)r->tail); out += b;
      delete r;
    } else out = "badcase";
    printf("%s\n", out.c_str());
    fflush(stdout);
  }
  return 0;
}
