// Correspondence harness for C14 (message handler list: tNMEA2000::AttachMsgHandler / DetachMsgHandler / SetMsgHandler /
// RunMessageHandlers, tNMEA2000::tMsgHandler constructor and destructor).
// One case = one line  "H tok tok ..."  executed on two bus objects (1, 2) and a pool of 6 handler objects (ids 0..5):
//   c<id>:<pgn>[:<bus>]  new handler object (constructor with PGN, optionally with a bus -> attaches itself); ignored if id is live
//   a<id>:<bus>          bus.AttachMsgHandler(h)                                                            ignored if id is dead
//   d<id>[:<via>]        via.DetachMsgHandler(h) (default via = bus 1; the library detaches from h's own bus)  ignored if dead
//   x<id>                delete h (destructor detaches)                                                       ignored if dead
//   r<bus>:<pgn>         bus.RunMessageHandlers(message with that PGN)
//   k<bus>:<0|1>         bus.SetMsgHandler(callback) / SetMsgHandler(0)
// Output: per r op the calls made in order ("cb" = plain callback, number = handler id, "-" = none), then
//   "| <list of bus 1> <list of bus 2>" (id@pgn in list order) and "| <t0> .. <t5>" (x = no object, else pgn:bus with bus 0 = none).
// A destroyed object is never touched again (the pool slot is only reused by a new object), so the sanitizer build reports any
// use of a freed handler by the library as a crash; a case that does not finish within 3 s is killed (SIGALRM) and counts as a crash too.  At the end of the case all objects are deleted and both lists must be empty.
#include "hcommon.h"
#include <unistd.h>
#include "NMEA2000.h"

class tBus : public tNMEA2000 {
public:
  bool CANSendFrame(unsigned long, unsigned char, const unsigned char *, bool) override { return true; }
  bool CANOpen() override { return true; }
  bool CANGetFrame(unsigned long &, unsigned char &, unsigned char *) override { return false; }
};

static std::string *g_out = 0;
static bool g_first = true;
static unsigned long g_pgn = 0;
static void logcall(const std::string &s, const tN2kMsg &m) {
  if (!g_first) *g_out += ",";
  *g_out += s;
  if (m.PGN != g_pgn) *g_out += "!";          // the message handed over must be the one being dispatched
  g_first = false;
}
static void cbfun(const tN2kMsg &m) { logcall("cb", m); }

class tLogHandler : public tNMEA2000::tMsgHandler {
public:
  int id;
  tLogHandler(int _id, unsigned long pgn, tNMEA2000 *bus) : tNMEA2000::tMsgHandler(pgn, bus), id(_id) {}
  void HandleMsg(const tN2kMsg &m) override { char b[16]; snprintf(b, 16, "%d", id); logcall(b, m); }
};

static const int NPOOL = 6;
static tBus *N[2];
static tLogHandler *pool[NPOOL];

static bool digits(const std::string &s) {
  if (s.empty() || s.size() > 20) return false;
  for (size_t i = 0; i < s.size(); i++) if (s[i] < '0' || s[i] > '9') return false;
  return true;
}
static std::vector<std::string> fields(const std::string &s) {
  std::vector<std::string> v; std::string cur;
  for (size_t i = 0; i < s.size(); i++) { if (s[i] == ':') { v.push_back(cur); cur.clear(); } else cur.push_back(s[i]); }
  v.push_back(cur); return v;
}
struct Op { char k; int id; int bus; unsigned long pgn; bool on; };
static bool parse_id(const std::string &s, int &id) { if (!digits(s)) return false; unsigned long long v = tounum(s); if (v >= (unsigned)NPOOL) return false; id = (int)v; return true; }
static bool parse_bus(const std::string &s, int &b) { if (s == "1") { b = 0; return true; } if (s == "2") { b = 1; return true; } return false; }
static bool parse(const std::string &t, Op &o) {
  if (t.size() < 2) return false;
  o.k = t[0]; o.id = 0; o.bus = -1; o.pgn = 0; o.on = false;
  std::vector<std::string> f = fields(t.substr(1));
  switch (o.k) {
    case 'c': if (f.size() != 2 && f.size() != 3) return false;
              if (!parse_id(f[0], o.id) || !digits(f[1])) return false;
              o.pgn = (unsigned long)strtoull(f[1].c_str(), 0, 10);
              return f.size() == 2 || parse_bus(f[2], o.bus);
    case 'a': return f.size() == 2 && parse_id(f[0], o.id) && parse_bus(f[1], o.bus);
    case 'd': if (f.size() == 1) { o.bus = 0; return parse_id(f[0], o.id); }
              return f.size() == 2 && parse_id(f[0], o.id) && parse_bus(f[1], o.bus);
    case 'x': return f.size() == 1 && parse_id(f[0], o.id);
    case 'r': if (f.size() != 2 || !parse_bus(f[0], o.bus) || !digits(f[1])) return false;
              o.pgn = (unsigned long)strtoull(f[1].c_str(), 0, 10); return true;
    case 'k': if (f.size() != 2 || !parse_bus(f[0], o.bus) || !digits(f[1])) return false;
              o.on = f[1] != "0"; return true;
  }
  return false;
}

static std::string list_of(tBus *n) {
  std::string s; int k = 0;
  for (tNMEA2000::tMsgHandler *h = n->MsgHandlers; h != 0; h = h->pNext) {
    if (++k > 100) { s += ",LOOP"; break; }
    char b[48]; snprintf(b, 48, "%s%d@%lu", s.empty() ? "" : ",", static_cast<tLogHandler *>(h)->id, h->GetPGN()); s += b;
  }
  return s.empty() ? "-" : s;
}

int main() {
  N[0] = new tBus(); N[1] = new tBus();
  for (int i = 0; i < NPOOL; i++) pool[i] = 0;
  std::string line;
  while (std::getline(std::cin, line)) {
    std::vector<std::string> t = split(line);
    std::string out;
    std::vector<Op> ops;
    bool ok = t.size() >= 1 && t[0] == "H";
    for (size_t i = 1; ok && i < t.size(); i++) { Op o; if (parse(t[i], o)) ops.push_back(o); else ok = false; }
    if (!ok) { printf("badcase\n"); fflush(stdout); continue; }
    g_out = &out;
    alarm(3);                       // a corrupted (cyclic) list must end the case as a crash (signal 14), not hang the check
    for (size_t i = 0; i < ops.size(); i++) {
      const Op &o = ops[i];
      switch (o.k) {
        case 'c': if (pool[o.id] == 0) pool[o.id] = new tLogHandler(o.id, o.pgn, o.bus >= 0 ? N[o.bus] : 0); break;
        case 'a': if (pool[o.id] != 0) N[o.bus]->AttachMsgHandler(pool[o.id]); break;
        case 'd': if (pool[o.id] != 0) N[o.bus]->DetachMsgHandler(pool[o.id]); break;
        case 'x': if (pool[o.id] != 0) { delete pool[o.id]; pool[o.id] = 0; } break;
        case 'k': N[o.bus]->SetMsgHandler(o.on ? cbfun : 0); break;
        case 'r': {
          tN2kMsg msg; msg.PGN = o.pgn; g_pgn = o.pgn; g_first = true;
          size_t before = out.size();
          N[o.bus]->RunMessageHandlers(msg);
          if (out.size() == before) out += "-";
          out += " ";
          break;
        }
      }
    }
    out += "| " + list_of(N[0]) + " " + list_of(N[1]) + " |";
    for (int i = 0; i < NPOOL; i++) {
      if (pool[i] == 0) { out += " x"; continue; }
      tNMEA2000 *p = pool[i]->pNMEA2000;
      char b[48]; snprintf(b, 48, " %lu:%d%s", pool[i]->GetPGN(), p == 0 ? 0 : p == N[0] ? 1 : p == N[1] ? 2 : 9,
                           (p == 0 && pool[i]->pNext != 0) ? "!" : "");
      out += b;
    }
    // clean up: every object is destroyed, afterwards both lists must be empty
    for (int i = 0; i < NPOOL; i++) if (pool[i] != 0) { delete pool[i]; pool[i] = 0; }
    for (int b = 0; b < 2; b++) { N[b]->SetMsgHandler(0); if (N[b]->MsgHandlers != 0) { out += " LEAK"; N[b]->MsgHandlers = 0; } }
    printf("%s\n", out.c_str());
    fflush(stdout);
  }
  return 0;
}
