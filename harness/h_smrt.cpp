// Correspondence harness for C19 (Seasmart $PCDIN export / import).
//   IMP <hex bytes of the string, no NUL>            -> "false" | "true <pgn> <ts> <src> <datahex>"
//   EXP <pgn> <ts> <src> <bufsize> <datahex>         -> "ret <n> <hex of bytes written incl. NUL | untouched>"
//   RT  <pgn> <ts> <src> <datahex>                   -> "rt false" | "rt true <pgn> <ts> <src> <datahex>"  (export, then import)
// Every input string / output buffer is an exact-size heap object, so that ASan sees any access past it.
#include "hcommon.h"
#include "Seasmart.h"

int main() {
  std::string line;
  while (std::getline(std::cin, line)) {
    std::vector<std::string> t = split(line);
    if (t.empty()) { printf("skip\n"); fflush(stdout); continue; }
    if (t[0] == "IMP") {
      std::vector<uint8_t> b = unhex(t.size() > 1 ? t[1] : "-");
      char *s = (char *)malloc(b.size() + 1);
      if (!b.empty()) memcpy(s, b.data(), b.size());
      s[b.size()] = 0;
      uint32_t ts = 0; tN2kMsg m;
      bool ok = SeasmartToN2k(s, ts, m);
      if (!ok) printf("false\n");
      else if (m.DataLen < 0 || m.DataLen > tN2kMsg::MaxDataLen) printf("true-badlen %d\n", m.DataLen);
      else printf("true %lu %u %u %s\n", m.PGN, ts, (unsigned)m.Source, hex(m.Data, m.DataLen).c_str());
      free(s);
    } else if (t[0] == "EXP" && t.size() >= 6) {
      tN2kMsg m; m.Clear();
      m.PGN = tounum(t[1]); uint32_t ts = (uint32_t)tounum(t[2]); m.Source = (unsigned char)tounum(t[3]);
      size_t size = (size_t)tounum(t[4]);
      std::vector<uint8_t> d = unhex(t[5]);
      m.DataLen = (int)d.size(); if (!d.empty()) memcpy(m.Data, d.data(), d.size());
      char *buf = (char *)malloc(size ? size : 1);
      memset(buf, 0xA5, size ? size : 1);
      size_t r = N2kToSeasmart(m, ts, buf, size);
      // what was written: everything up to the last byte that differs from the fill pattern
      size_t w = size; while (w > 0 && (uint8_t)buf[w - 1] == 0xA5) w--;
      printf("ret %zu %s\n", r, w == 0 ? "untouched" : hex((uint8_t *)buf, w).c_str());
      free(buf);
    } else if (t[0] == "RT" && t.size() >= 5) {
      // export into an exact-size buffer, then import what was written
      tN2kMsg m; m.Clear();
      m.PGN = tounum(t[1]); uint32_t ts = (uint32_t)tounum(t[2]); m.Source = (unsigned char)tounum(t[3]);
      std::vector<uint8_t> d = unhex(t[4]);
      m.DataLen = (int)d.size(); if (!d.empty()) memcpy(m.Data, d.data(), d.size());
      size_t size = 30 + 2 * d.size();
      char *buf = (char *)malloc(size); memset(buf, 0xA5, size);
      size_t r = N2kToSeasmart(m, ts, buf, size);
      uint32_t ts2 = 0; tN2kMsg m2;
      bool ok = r > 0 && SeasmartToN2k(buf, ts2, m2);
      if (!ok) printf("rt false\n");
      else printf("rt true %lu %u %u %s\n", m2.PGN, ts2, (unsigned)m2.Source, hex(m2.Data, m2.DataLen).c_str());
      free(buf);
    } else printf("badcase\n");
    fflush(stdout);
  }
  return 0;
}
