// Correspondence harness for C16 (text fields of tN2kMsg).
//   support: 0 = vss_ForceASCII, 1 = vss_SupportUnicode ; lenmode: 0 = vsl_UseBytes, 1 = vsl_UseCharacters
//   ADDSTR  fill len fillchar strhex                       -> <add>
//   ADDAIS  fill len strhex                                -> <add>
//   ADDVAR  fill maxlen support lenmode strhex             -> <add>
//   ADDVAR2 fill strhex                                    -> <add>      (AddVarStr(str) overload)
//   GETSTR  size len nulchar index datalen datahex         -> <get>
//   GETSTRU size len index datalen datahex                 -> <get>      (unsized GetStr into a buffer of `size` bytes)
//   GETVAR  size nulchar index datalen datahex             -> <getv>     (nulchar "-" = GetVarStr overload without nulChar)
//   RTSTR   fill len fillchar size strhex                  -> <add> | <get>               (GetStr sized, nulChar = fillchar)
//   RTAIS   fill len size strhex                           -> <add> | <get> | <get>       (GetStr sized with '@', then unsized GetStr
//                                                                                           into an exact Length+1 buffer)
//   RTVAR   fill maxlen support lenmode size nulchar strhex -> <add> | <getv>
//   <add>  = "dl <DataLen> stale <k> dirty <m> <hex of Data[fill..DataLen)>"
//            the operation is run twice, on payloads preset to 0x55 and to 0xAA: stale = number of field bytes that differ between the
//            runs (= never written), dirty = number of bytes outside [fill,DataLen) that no longer hold the preset value
//   <get>  = "ret <0|1> idx <Index> buf <hex of the whole destination>"      (destination preset to 0xA5)
//   <getv> = "ret <0|1> idx <Index> sz <StrBufSize> buf <hex>"
// Every string is an exact-size heap object (malloc(len+1)), every destination an exact-size heap object, so that ASan sees any access
// past them; MsgTime behind Data[] carries a canary because ASan cannot see an overflow of Data[] into the next member.
#include "hcommon.h"
#include "N2kMsg.h"

static const unsigned long CANARY = 0xC0FFEE11UL;

static char *mkstr(const std::string &h) {
  std::vector<uint8_t> b = unhex(h);
  char *s = (char *)malloc(b.size() + 1);
  if (!b.empty()) memcpy(s, b.data(), b.size());
  s[b.size()] = 0;
  return s;
}

// exact-size destination preset to 0xA5; for size 0 the pointer handed out is the end of a one byte object (malloc(0) would give
// a usable byte under ASan), so that even a write to StrBuf[0] is seen
static char *newdest(size_t size) {
  char *b = (char *)malloc(size ? size : 1);
  memset(b, 0xA5, size ? size : 1);
  return b;
}

static void preset(tN2kMsg &m, int fill, uint8_t pat) {
  m.DataLen = fill; memset(m.Data, pat, tN2kMsg::MaxDataLen); m.MsgTime = CANARY;
}

static void load(tN2kMsg &m, int datalen, const std::string &h) {
  std::vector<uint8_t> d = unhex(h);
  memset(m.Data, 0xCD, tN2kMsg::MaxDataLen);
  if (!d.empty()) memcpy(m.Data, d.data(), d.size() < (size_t)tN2kMsg::MaxDataLen ? d.size() : (size_t)tN2kMsg::MaxDataLen);
  m.DataLen = datalen; m.MsgTime = CANARY;
}

struct AddOp { int kind; int len; int fillchar; int support; int lenmode; const char *s; };

// pgm: the UsePgm variant of the call (on this host program memory is ordinary memory: the result must be the same)
static void do_add(tN2kMsg &m, const AddOp &o, bool pgm = false) {
  switch (o.kind) {
    case 0: m.AddStr(o.s, o.len, pgm, (unsigned char)o.fillchar); break;
    case 1: m.AddAISStr(o.s, o.len); break;
    case 2: m.AddVarStr(o.s, o.len, o.support ? tN2kMsg::vss_SupportUnicode : tN2kMsg::vss_ForceASCII,
                        o.lenmode ? tN2kMsg::vsl_UseCharacters : tN2kMsg::vsl_UseBytes, pgm); break;
    case 3: m.AddVarStr(o.s, pgm); break;
  }
}

// runs the add twice; leaves the 0x55 run in a; returns false (after printing) when the payload bookkeeping is broken
static bool add_report(tN2kMsg &a, int fill, const AddOp &o, std::string &out) {
  tN2kMsg b;
  preset(a, fill, 0x55); preset(b, fill, 0xAA);
  do_add(a, o); do_add(b, o, true);        // the second run takes the UsePgm path
  if (a.MsgTime != CANARY || b.MsgTime != CANARY) { out = "crash canary"; return false; }
  char tmp[64];
  if (a.DataLen < fill || a.DataLen > tN2kMsg::MaxDataLen || b.DataLen != a.DataLen) { snprintf(tmp, sizeof tmp, "dl %d bad", a.DataLen); out = tmp; return false; }
  int stale = 0, dirty = 0;
  for (int i = 0; i < tN2kMsg::MaxDataLen; i++) {
    if (i >= fill && i < a.DataLen) { if (a.Data[i] != b.Data[i]) stale++; }
    else if (a.Data[i] != 0x55) dirty++;
  }
  snprintf(tmp, sizeof tmp, "dl %d stale %d dirty %d ", a.DataLen, stale, dirty);
  out = tmp + hex(a.Data + fill, a.DataLen - fill);
  return true;
}

static std::string get_sized(const tN2kMsg &m, size_t size, size_t len, int nul, int index) {
  char *base = newdest(size), *buf = size ? base : base + 1;
  int idx = index;
  bool r = m.GetStr(size, buf, len, (unsigned char)nul, idx);
  char tmp[64]; snprintf(tmp, sizeof tmp, "ret %d idx %d buf ", r ? 1 : 0, idx);
  std::string out = tmp + hex((uint8_t *)buf, size);
  free(base); return out;
}

static std::string get_unsized(const tN2kMsg &m, size_t size, size_t len, int index) {
  char *base = newdest(size), *buf = size ? base : base + 1;
  int idx = index;
  bool r = m.GetStr(buf, len, idx);
  char tmp[64]; snprintf(tmp, sizeof tmp, "ret %d idx %d buf ", r ? 1 : 0, idx);
  std::string out = tmp + hex((uint8_t *)buf, size);
  free(base); return out;
}

static std::string get_var(const tN2kMsg &m, size_t size, const std::string &nul, int index) {
  char *base = newdest(size), *buf = size ? base : base + 1;
  int idx = index; size_t sz = size;
  bool r = (nul == "-") ? m.GetVarStr(sz, buf, idx) : m.GetVarStr(sz, buf, (unsigned char)tonum(nul), idx);
  char tmp[96]; snprintf(tmp, sizeof tmp, "ret %d idx %d sz %zu buf ", r ? 1 : 0, idx, sz);
  std::string out = tmp + hex((uint8_t *)buf, size);
  free(base); return out;
}

int main() {
  std::string line;
  while (std::getline(std::cin, line)) {
    std::vector<std::string> t = split(line);
    if (t.empty()) { printf("skip\n"); fflush(stdout); continue; }
    const std::string &op = t[0];
    std::string out;
    tN2kMsg m;
    if (op == "ADDSTR" && t.size() >= 5) {
      char *s = mkstr(t[4]); AddOp o = {0, (int)tonum(t[2]), (int)tonum(t[3]), 0, 0, s};
      add_report(m, (int)tonum(t[1]), o, out); free(s);
    } else if (op == "ADDAIS" && t.size() >= 4) {
      char *s = mkstr(t[3]); AddOp o = {1, (int)tonum(t[2]), 0, 0, 0, s};
      add_report(m, (int)tonum(t[1]), o, out); free(s);
    } else if (op == "ADDVAR" && t.size() >= 6) {
      char *s = mkstr(t[5]); AddOp o = {2, (int)tonum(t[2]), 0, (int)tonum(t[3]), (int)tonum(t[4]), s};
      add_report(m, (int)tonum(t[1]), o, out); free(s);
    } else if (op == "ADDVAR2" && t.size() >= 3) {
      char *s = mkstr(t[2]); AddOp o = {3, 0, 0, 0, 0, s};
      add_report(m, (int)tonum(t[1]), o, out); free(s);
    } else if (op == "GETSTR" && t.size() >= 7) {
      load(m, (int)tonum(t[5]), t[6]);
      out = get_sized(m, (size_t)tounum(t[1]), (size_t)tounum(t[2]), (int)tonum(t[3]), (int)tonum(t[4]));
    } else if (op == "GETSTRU" && t.size() >= 6) {
      load(m, (int)tonum(t[4]), t[5]);
      out = get_unsized(m, (size_t)tounum(t[1]), (size_t)tounum(t[2]), (int)tonum(t[3]));
    } else if (op == "GETVAR" && t.size() >= 6) {
      load(m, (int)tonum(t[4]), t[5]);
      out = get_var(m, (size_t)tounum(t[1]), t[2], (int)tonum(t[3]));
    } else if (op == "RTSTR" && t.size() >= 6) {
      int fill = (int)tonum(t[1]);
      char *s = mkstr(t[5]); AddOp o = {0, (int)tonum(t[2]), (int)tonum(t[3]), 0, 0, s};
      if (add_report(m, fill, o, out)) out += " | " + get_sized(m, (size_t)tounum(t[4]), (size_t)o.len, o.fillchar, fill);
      free(s);
    } else if (op == "RTAIS" && t.size() >= 5) {
      int fill = (int)tonum(t[1]);
      char *s = mkstr(t[4]); AddOp o = {1, (int)tonum(t[2]), 0, 0, 0, s};
      if (add_report(m, fill, o, out)) {
        size_t flen = (size_t)(m.DataLen - fill);
        out += " | " + get_sized(m, (size_t)tounum(t[3]), flen, '@', fill);
        out += " | " + get_unsized(m, flen + 1, flen, fill);
      }
      free(s);
    } else if (op == "RTVAR" && t.size() >= 8) {
      int fill = (int)tonum(t[1]);
      char *s = mkstr(t[7]); AddOp o = {2, (int)tonum(t[2]), 0, (int)tonum(t[3]), (int)tonum(t[4]), s};
      if (add_report(m, fill, o, out)) out += " | " + get_var(m, (size_t)tounum(t[5]), t[6], fill);
      free(s);
    } else out = "badcase";
    printf("%s\n", out.c_str());
    fflush(stdout);
  }
  return 0;
}
