// Stand-in for ESP-IDF's esp_timer.h: the 64-bit scheduler build of N2kTimer.h reads the clock through
// esp_timer_get_time() (microseconds).  The harness owns the virtual clock.
#ifndef VERIF_FAKE_ESP_TIMER_H
#define VERIF_FAKE_ESP_TIMER_H
#include <stdint.h>
extern uint64_t verif_now_ms;
static inline int64_t esp_timer_get_time() { return (int64_t)(verif_now_ms * 1000ULL); }
#endif
