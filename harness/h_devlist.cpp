// Correspondence harness for C18 (and the device-list half of C07): a tN2kDeviceList attached to a mock tNMEA2000 in
// listen-and-node mode (opened, address claimed) with a virtual clock.  One case = one history:
//   DL <t0> | M <dt> <pgn> <src> <dst> <datahex> [<sendok 0/1>] ; ... ; Q ; ...
//     M : advance the clock by dt ms, then HandleMsg() of the message; sendok=0 makes every SendMsg() of the list fail during this message
//     Q : dump the list (also implicitly at the end)
//   DLS <t0>,<t0>,... | <the same operations>   runs the history once per clock origin; the results are joined by " || "
// t0 is the value of the 32-bit millisecond clock N2kMillis() when the list is constructed (the 64-bit clock runs at 2^32+t0, the
// device list only reads the 32-bit one).  The node is created once (opened, address 25 claimed) and is only the sink of SendMsg();
// every case gets a new tN2kDeviceList.  Built with the w64 flag set only: unsigned long is 64 bits in both flag sets and the list
// reads nothing but N2kMillis().
// Output: per op, separated by " ; ":
//   M -> "u=<ReadResetIsListUpdated 0/1> req=<time>:<dest>:<requested pgn>,... | -"     (ISO requests (PGN 59904) the list put on the bus)
//   Q -> "max=<MaxDevices> pend=<HasPendingRequests> cnt=<Count()> s<src>{...} ... byname <namehex>=<source|-> ..."
//        for every source 0..253 with an entry:  n=<NAME hex> src=<GetSource()> ct=<CreateTime>
//          pi=<loaded>:<N2kVersion>:<ProductCode>:<ModelID>:<SwCode>:<ModelVersion>:<ModelSerialCode>:<CertificationLevel>:<LoadEquivalency>
//          ci=<loaded>:<ManufacturerInformation>:<InstallationDescription1>:<InstallationDescription2>   (strings in hex, "-" empty, "~" null pointer)
//          tx=<~ | - | pgn,pgn,..> rx=...  rq=<nNameRequested>/<ProdIRequested>/<n>/<ConfIRequested>/<n>/<PGNsRequested>/<n> lm=<LastMessageTime>
//        byname: FindDeviceByName for NAME 0 and every NAME claimed in the history (first 8 payload bytes, all-ones if shorter)
// Every entry and every buffer of the list is an exact-size heap object of its own, so ASan sees use after free and overflows.
#include "hcommon.h"
#include "NMEA2000.h"
#include "N2kMessages.h"
#include "N2kDeviceList.h"
#include <algorithm>

static std::string *g_req = 0;

class tMock : public tNMEA2000 {
public:
  bool CANSendFrame(unsigned long id, unsigned char len, const unsigned char *buf, bool wait_sent) override {
    if (g_req) {
      unsigned pf = (id >> 16) & 0xff, ps = (id >> 8) & 0xff;
      char t[96];
      if (pf == 0xEA && len >= 3) snprintf(t, 96, "%u:%u:%lu", (unsigned)(uint32_t)verif_now_ms, ps, (unsigned long)(buf[0] | (buf[1] << 8) | ((unsigned long)buf[2] << 16)));
      else snprintf(t, 96, "other:%lx:%u", id, (unsigned)len);
      if (!g_req->empty()) *g_req += ",";
      *g_req += t;
    }
    return true;
  }
  bool CANOpen() override { return true; }
  bool CANGetFrame(unsigned long &id, unsigned char &len, unsigned char *buf) override { return false; }
};

static std::string cstr(const char *s) { if (s == 0) return "~"; return hex((const uint8_t *)s, strlen(s)); }
static std::string plist(const unsigned long *p) {
  if (p == 0) return "~";
  if (p[0] == 0) return "-";
  std::string s; char t[32];
  for (int i = 0; p[i] != 0; i++) { snprintf(t, 32, "%s%lu", i ? "," : "", p[i]); s += t; }
  return s;
}

static void dump(tN2kDeviceList *dl, const std::vector<uint64_t> &names, std::string &out) {
  char b[256];
  snprintf(b, 256, "max=%u pend=%d cnt=%u", (unsigned)dl->MaxDevices, (int)dl->HasPendingRequests, (unsigned)dl->Count()); out += b;
  for (int s = 0; s < N2kMaxBusDevices; s++) {
    const tNMEA2000::tDevice *d = dl->FindDeviceBySource((uint8_t)s);
    if (d == 0) continue;
    tN2kDeviceList::tInternalDevice *e = dl->Sources[s];
    snprintf(b, 256, " s%d{n=%llx src=%u ct=%lu pi=%d:%u:%u:", s, (unsigned long long)d->GetName(), (unsigned)d->GetSource(), d->GetCreateTime(),
             (int)e->HasProductInformation(), (unsigned)d->GetN2kVersion(), (unsigned)d->GetProductCode()); out += b;
    out += cstr(d->GetModelID()) + ":" + cstr(d->GetSwCode()) + ":" + cstr(d->GetModelVersion()) + ":" + cstr(d->GetModelSerialCode());
    snprintf(b, 256, ":%u:%u ci=%d:", (unsigned)d->GetCertificationLevel(), (unsigned)d->GetLoadEquivalency(), (int)e->HasConfigurationInformation()); out += b;
    out += cstr(d->GetManufacturerInformation()) + ":" + cstr(d->GetInstallationDescription1()) + ":" + cstr(d->GetInstallationDescription2());
    out += " tx=" + plist(d->GetTransmitPGNs()) + " rx=" + plist(d->GetReceivePGNs());
    snprintf(b, 256, " rq=%u/%lu/%u/%lu/%u/%lu/%u lm=%lu}", (unsigned)e->nNameRequested, e->ProdIRequested, (unsigned)e->nProdIRequested, e->ConfIRequested,
             (unsigned)e->nConfIRequested, e->PGNsRequested, (unsigned)e->nPGNsRequested, e->LastMessageTime); out += b;
  }
  out += " byname";
  for (uint64_t n : names) {
    const tNMEA2000::tDevice *d = dl->FindDeviceByName(n);
    if (d) snprintf(b, 256, " %llx=%u", (unsigned long long)n, (unsigned)d->GetSource()); else snprintf(b, 256, " %llx=-", (unsigned long long)n);
    out += b;
  }
}

static void run_case(const std::string &line) {
  size_t bar = line.find('|');
  std::vector<std::string> head = split(line.substr(0, bar == std::string::npos ? line.size() : bar));
  if (head.size() < 2 || (head[0] != "DL" && head[0] != "DLS") || bar == std::string::npos) { printf("badcase\n"); fflush(stdout); return; }
  const uint64_t base = 1ULL << 32;
  std::vector<uint64_t> origins;
  { std::stringstream os(head[1]); std::string x; while (std::getline(os, x, ',')) if (!x.empty()) origins.push_back(tounum(x) & 0xffffffffULL); }
  if (origins.empty() || (head[0] == "DL" && origins.size() != 1)) { printf("badcase\n"); fflush(stdout); return; }
  // the ops
  struct Op { char k; uint64_t dt; unsigned long pgn; unsigned src, dst; std::vector<uint8_t> data; bool ok; };
  std::vector<Op> ops; std::vector<uint64_t> names; names.push_back(0);
  std::stringstream ss(line.substr(bar + 1)); std::string opstr;
  while (std::getline(ss, opstr, ';')) {
    std::vector<std::string> t = split(opstr);
    if (t.empty()) continue;
    Op o; o.k = t[0][0]; o.ok = true; o.dt = 0; o.pgn = 0; o.src = o.dst = 0;
    if (o.k == 'M' && t.size() >= 6) {
      o.dt = tounum(t[1]); o.pgn = tounum(t[2]); o.src = (unsigned)tounum(t[3]); o.dst = (unsigned)tounum(t[4]); o.data = unhex(t[5]);
      if (t.size() >= 7) o.ok = t[6] != "0";
      if (o.pgn == 60928UL) {
        uint64_t n = 0xffffffffffffffffULL;
        if (o.data.size() >= 8) { n = 0; for (int i = 7; i >= 0; i--) n = (n << 8) | o.data[i]; }
        if (std::find(names.begin(), names.end(), n) == names.end()) names.push_back(n);
      }
    } else if (o.k != 'Q') { printf("badcase\n"); fflush(stdout); return; }
    ops.push_back(o);
  }
  if (ops.empty() || ops.back().k != 'Q') { Op q; q.k = 'Q'; q.ok = true; q.dt = 0; q.pgn = 0; q.src = q.dst = 0; ops.push_back(q); }

  // node: created once, opened and address claimed before the first history starts; afterwards it is only the sink of SendMsg()
  g_req = 0;
  static tMock *n = 0;
  if (n == 0) {
    verif_now_ms = 1000000;
    n = new tMock();
    n->SetMode(tNMEA2000::N2km_ListenAndNode, 25);
    n->SetForwardStream(0);
    n->SetHeartbeatIntervalAndOffset(0, 0);
    n->Open();
    for (int k = 0; k < 600; k++) { n->ParseMessages(); verif_now_ms++; }
    n->SetHeartbeatIntervalAndOffset(0, 0);
    n->IsAddressClaimStarted(0);
  }
  std::string all;
  for (size_t oi = 0; oi < origins.size(); oi++) {
  uint64_t t0 = origins[oi];
  verif_now_ms = base + t0;
  tN2kDeviceList *dl = new tN2kDeviceList(n);

  std::string out, req; bool first = true;
  for (size_t i = 0; i < ops.size(); i++) {
    Op &o = ops[i];
    if (!first) out += " ; "; first = false;
    if (o.k == 'M') {
      verif_now_ms += o.dt;
      // the message is an exact-size heap object as far as its payload goes: Data[] is inside tN2kMsg, so only DataLen bounds it
      tN2kMsg *m = new tN2kMsg();
      m->Clear(); m->Priority = 6; m->PGN = o.pgn; m->Source = (unsigned char)o.src; m->Destination = (unsigned char)o.dst;
      memset(m->Data, 0xEE, sizeof(m->Data));
      m->DataLen = (int)std::min(o.data.size(), (size_t)tN2kMsg::MaxDataLen);
      if (m->DataLen) memcpy(m->Data, o.data.data(), m->DataLen);
      m->MsgTime = (unsigned long)(uint32_t)verif_now_ms;
      req.clear(); g_req = &req;
      tNMEA2000::tN2kMode keep = n->N2kMode;
      if (!o.ok) n->N2kMode = tNMEA2000::N2km_ListenOnly;       // SendMsg() refuses: "the request could not be sent"
      dl->HandleMsg(*m);
      n->N2kMode = keep;
      g_req = 0;
      delete m;
      out += dl->ReadResetIsListUpdated() ? "u=1 req=" : "u=0 req=";
      out += req.empty() ? "-" : req;
    } else {
      dump(dl, names, out);
    }
  }
  if (oi) all += " || ";
  all += out;
  // release the entries so that long runs do not accumulate memory (the list itself has no destructor for them)
  for (int s = 0; s < N2kMaxBusDevices; s++) if (dl->Sources[s]) { delete dl->Sources[s]; dl->Sources[s] = 0; }
  n->DetachMsgHandler(dl);
  dl->pNMEA2000 = 0;
  delete dl;
  }
  printf("%s\n", all.c_str());
  fflush(stdout);
}

int main() {
  std::string line;
  while (std::getline(std::cin, line)) {
    if (split(line).empty()) { printf("skip\n"); fflush(stdout); continue; }
    run_case(line);
  }
  return 0;
}
