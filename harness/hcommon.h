// Common helpers for the correspondence harnesses (line protocol: one case per line in, one result line out).
#ifndef VERIF_HCOMMON_H
#define VERIF_HCOMMON_H
#include <stdio.h>
#include <stdlib.h>
#include <string.h>
#include <stdint.h>
#include <string>
#include <vector>
#include <sstream>
#include <iostream>

// virtual clock shared by both timer builds
uint64_t verif_now_ms = 0;
extern "C" uint32_t millis() { return (uint32_t)verif_now_ms; }

static inline std::vector<std::string> split(const std::string &s) {
  std::vector<std::string> v; std::istringstream is(s); std::string t; while (is >> t) v.push_back(t); return v;
}
static inline std::vector<uint8_t> unhex(const std::string &h) {
  std::vector<uint8_t> v; if (h == "-") return v;
  for (size_t i = 0; i + 1 < h.size(); i += 2) v.push_back((uint8_t)strtoul(h.substr(i, 2).c_str(), 0, 16));
  return v;
}
static inline std::string hex(const uint8_t *p, size_t n) {
  static const char *d = "0123456789abcdef"; std::string s; if (n == 0) return "-";
  for (size_t i = 0; i < n; i++) { s.push_back(d[p[i] >> 4]); s.push_back(d[p[i] & 15]); } return s;
}
static inline long long tonum(const std::string &s) { return strtoll(s.c_str(), 0, 0); }
static inline unsigned long long tounum(const std::string &s) { return strtoull(s.c_str(), 0, 0); }
#endif
