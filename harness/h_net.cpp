// Multi-node correspondence harness for the address-claim property (C03): several tNMEA2000 instances with mock drivers and foreign
// ISO 11783-5 reference nodes on a simulated bus without loop-back, one shared virtual clock.  Mirrors coq/Model/NetDefs.v.
//   NET t0=<ms> | <participant> <participant> ... | op ; op ; ...
//   participant:  L<mode>:<addr>.<namehex>,<addr>.<namehex>,...   library instance (one entry per device: preferred address, NAME)
//                 F:<addr>.<namehex>                               foreign reference node
//   ops: start i | join i   participant i is switched on (library: first ParseMessages; reference node: claims its preferred address)
//        step i [k]          participant i processes the k-th frame pending for it (library: exactly that frame in the driver queue, ParseMessages)
//        tick dt             the clock advances by dt ms, then every started library node runs ParseMessages (claim timers are serviced)
//        cmd <namehex> <addr> [toolsrc]   commanded address (PGN 65240 by BAM) from a foreign tool address into every started inbox
//        ack i               application of library node i calls ReadResetAddressChanged()
//        restart i           application of library node i calls Restart()
//        raw <idhex> <len> <8 bytes hex>   arbitrary frame into every started inbox
//        drain               macro: while some started participant has a pending frame, the lowest such participant processes its oldest
//                            one; every delivery is announced by dl:<i>; at most 2000 deliveries
// Output: per op  tx:<i>:<idhex>:<len>:<datahex>  ac:<i>:<0|1>  chg:<i>.<dev>:<old>:<new>:<flag>   separated by "; ", then "|" and per
// participant  P<i>{on= q=<pending frames> open= ac= d<k>=<addr>/<claim end>/<claim timer enabled>/<namehex> ...}  or  P<i>{on= q= f=<addr>/<namehex>}
#include "hcommon.h"
#include "NMEA2000.h"
#include "N2kMessages.h"
#include <deque>
#include <map>
#include <sys/mman.h>
#include <sys/wait.h>
#include <unistd.h>

static void *fenced_copy(const void *src, size_t bytes, bool fence_at_start) {
  size_t pg = (size_t)sysconf(_SC_PAGESIZE);
  size_t body = ((bytes + pg - 1) / pg) * pg;
  char *m = (char *)mmap(0, body + 2 * pg, PROT_READ | PROT_WRITE, MAP_PRIVATE | MAP_ANONYMOUS, -1, 0);
  if (m == MAP_FAILED) return 0;
  mprotect(m, pg, PROT_NONE); mprotect(m + pg + body, pg, PROT_NONE);
  char *dst = fence_at_start ? m + pg : m + pg + body - bytes;
  memcpy(dst, src, bytes);
  return dst;
}

struct Frame { unsigned long id; unsigned char len; unsigned char buf[8]; };
struct Part;
static std::vector<Part *> g_parts;
static std::string *g_out = 0;
static void bus_send(int from, const Frame &f);

class tMock : public tNMEA2000 {
public:
  int index = 0;
  std::deque<Frame> rx;
  void *r_dev = 0, *r_slots = 0, *r_send = 0;
  bool CANSendFrame(unsigned long id, unsigned char len, const unsigned char *buf, bool wait_sent) override {
    Frame f; f.id = id; f.len = len; memset(f.buf, 0, 8); memcpy(f.buf, buf, len > 8 ? 8 : len);
    bus_send(index, f);
    return true;
  }
  bool CANOpen() override { return true; }
  bool CANGetFrame(unsigned long &id, unsigned char &len, unsigned char *buf) override {
    if (rx.empty()) return false;
    Frame f = rx.front(); rx.pop_front();
    id = f.id; len = f.len; memcpy(buf, f.buf, 8);
    return true;
  }
  void relocate(int ndev) {
    if (Devices && (void *)Devices != r_dev) { void *p = fenced_copy(Devices, sizeof(tNMEA2000::tInternalDevice) * ndev, true); if (p) { Devices = (tNMEA2000::tInternalDevice *)p; r_dev = p; } }
    if (N2kCANMsgBuf && (void *)N2kCANMsgBuf != r_slots) { void *p = fenced_copy(N2kCANMsgBuf, sizeof(tN2kCANMsg) * MaxN2kCANMsgs, false); if (p) { N2kCANMsgBuf = (tN2kCANMsg *)p; r_slots = p; } }
    if (CANSendFrameBuf && (void *)CANSendFrameBuf != r_send) { void *p = fenced_copy(CANSendFrameBuf, sizeof(tNMEA2000::tCANSendFrame) * MaxCANSendFrames, false); if (p) { CANSendFrameBuf = (tNMEA2000::tCANSendFrame *)p; r_send = p; } }
  }
};

// foreign reference node: claims its preferred address, defends it against higher NAMEs, moves on (or gives up with the null address) when it loses
struct Ref {
  int addr = 254, pref = 0, end = 251; uint64_t name = 0;
  Frame claim() const { Frame f; f.id = (6UL << 26) | (60928UL << 8) | (255UL << 8) | (unsigned)addr; f.len = 8; for (int i = 0; i < 8; i++) f.buf[i] = (unsigned char)(name >> (8 * i)); return f; }
  void start(std::vector<Frame> &out) { addr = pref; end = pref > 0 ? pref - 1 : 251; out.push_back(claim()); }
  void react(const Frame &x, std::vector<Frame> &out) {
    unsigned pf = (x.id >> 16) & 0xff, dp = (x.id >> 24) & 1, src = x.id & 0xff;
    unsigned long pgn = pf < 240 ? ((unsigned long)dp << 16 | pf << 8) : ((unsigned long)dp << 16 | pf << 8 | ((x.id >> 8) & 0xff));
    if (pgn != 60928 || x.len != 8 || (int)src != addr || addr > 251) return;
    uint64_t n = 0; for (int i = 7; i >= 0; i--) n = (n << 8) | x.buf[i];
    if (name < n) out.push_back(claim());
    else if (n < name) { addr = (addr == end) ? 254 : (addr + 1 > 251 ? 0 : addr + 1); out.push_back(claim()); }
  }
};

struct Part { bool on = false; bool lib = false; tMock *n = 0; int ndev = 0; Ref ref; std::deque<Frame> inbox; };

static void bus_send(int from, const Frame &f) {
  char t[64]; snprintf(t, 64, "tx:%d:%lx:%u:", from, f.id, (unsigned)f.len); *g_out += t; *g_out += hex(f.buf, f.len > 8 ? 8 : f.len); *g_out += " ";
  for (size_t j = 0; j < g_parts.size(); j++) if ((int)j != from && g_parts[j]->on) g_parts[j]->inbox.push_back(f);
}
static void to_all(const Frame &f) { for (auto p : g_parts) if (p->on) p->inbox.push_back(f); }
static unsigned long can_id(unsigned prio, unsigned long pgn, unsigned src, unsigned dst) {
  unsigned pf = (pgn >> 8) & 0xff;
  return pf < 240 ? ((unsigned long)(prio & 7) << 26 | pgn << 8 | (unsigned long)dst << 8 | src) : ((unsigned long)(prio & 7) << 26 | pgn << 8 | src);
}
static std::vector<int> addrs(Part *p) {
  std::vector<int> v;
  if (p->lib) for (int i = 0; i < p->ndev; i++) v.push_back(p->n->GetN2kSource(i)); else v.push_back(p->ref.addr);
  return v;
}
static void poll(Part *p) { p->n->ParseMessages(); p->n->relocate(p->ndev); }

static std::vector<std::vector<int>> snapshot() { std::vector<std::vector<int>> v; for (auto p : g_parts) v.push_back(addrs(p)); return v; }
static void print_changes(const std::vector<std::vector<int>> &before, std::string &out) {
  for (size_t j = 0; j < g_parts.size(); j++) {
    std::vector<int> now = addrs(g_parts[j]);
    for (size_t d = 0; d < now.size(); d++) if (now[d] != before[j][d]) {
      char b[64]; snprintf(b, 64, "chg:%d.%d:%d:%d:%s ", (int)j, (int)d, before[j][d], now[d], g_parts[j]->lib ? (g_parts[j]->n->AddressChanged ? "1" : "0") : "-"); out += b;
    }
  }
}
// participant i processes the k-th frame pending for it
static void do_step(int i, long k) {
  Part *p = g_parts[i];
  if (!p->on || k < 0 || k >= (long)p->inbox.size()) return;
  Frame x = p->inbox[k]; p->inbox.erase(p->inbox.begin() + k);
  if (p->lib) { p->n->rx.push_back(x); poll(p); }
  else { std::vector<Frame> fs; p->ref.react(x, fs); for (auto &f : fs) bus_send(i, f); }
}

static void run_case(const std::string &line) {
  std::vector<std::string> sec; { std::stringstream ss(line); std::string x; while (std::getline(ss, x, '|')) sec.push_back(x); }
  if (line.compare(0, 4, "NET ") != 0 || sec.size() != 3) { printf("badcase\n"); fflush(stdout); return; }
  std::map<std::string, std::string> kv;
  for (auto &c : split(sec[0])) { size_t e = c.find('='); if (e != std::string::npos) kv[c.substr(0, e)] = c.substr(e + 1); }
  uint64_t t0 = kv.count("t0") ? strtoull(kv["t0"].c_str(), 0, 10) : 5000;
  std::string out; g_out = &out; g_parts.clear();
  verif_now_ms = t0;
  for (auto &tok : split(sec[1])) {
    size_t colon = tok.find(':'); if (colon == std::string::npos) { printf("badcase\n"); fflush(stdout); return; }
    std::vector<std::pair<int, uint64_t>> ents; { std::stringstream ss(tok.substr(colon + 1)); std::string e; while (std::getline(ss, e, ',')) if (!e.empty()) { size_t d = e.find('.'); ents.push_back({atoi(e.substr(0, d).c_str()), strtoull(e.substr(d + 1).c_str(), 0, 16)}); } }
    Part *p = new Part();
    if (tok[0] == 'F') { p->ref.pref = ents[0].first; p->ref.end = ents[0].first > 0 ? ents[0].first - 1 : 251; p->ref.name = ents[0].second; }
    else {
      p->lib = true; p->ndev = (int)ents.size();
      tMock *n = new tMock(); n->index = (int)g_parts.size();
      n->SetDeviceCount(p->ndev); n->SetN2kCANSendFrameBufSize(40); n->SetN2kCANMsgBufSize(5);
      n->SetMode((tNMEA2000::tN2kMode)atoi(tok.substr(1, colon - 1).c_str()), ents[0].first);
      for (int i = 0; i < p->ndev; i++) { n->SetN2kSource((unsigned char)ents[i].first, i); n->Devices[i].DeviceInformation.DeviceInformation.Name = ents[i].second; }
      n->relocate(p->ndev);
      n->SetForwardStream(0);
      p->n = n;
    }
    g_parts.push_back(p);
  }
  std::stringstream ops(sec[2]); std::string opstr; bool first = true;
  while (std::getline(ops, opstr, ';')) {
    std::vector<std::string> t = split(opstr);
    if (!first) out += "; "; first = false;
    if (t.empty()) continue;
    if (t[0] == "drain" && t.size() == 1) {
      for (int fuel = 2000; fuel > 0; fuel--) {
        int j = -1; for (size_t q = 0; q < g_parts.size() && j < 0; q++) if (g_parts[q]->on && !g_parts[q]->inbox.empty()) j = (int)q;
        if (j < 0) break;
        char b[32]; snprintf(b, 32, "dl:%d ", j); out += b;
        std::vector<std::vector<int>> before = snapshot();
        do_step(j, 0);
        print_changes(before, out);
      }
      continue;
    }
    std::vector<std::vector<int>> before = snapshot();
    int i = t.size() > 1 ? atoi(t[1].c_str()) : -1;
    Part *p = (i >= 0 && i < (int)g_parts.size() && t[0] != "tick" && t[0] != "cmd" && t[0] != "raw") ? g_parts[i] : 0;
    std::vector<Frame> fs;
    if ((t[0] == "start" || t[0] == "join") && t.size() == 2) {
      if (p && !p->on) { p->on = true; p->inbox.clear(); if (p->lib) poll(p); else { p->ref.start(fs); for (auto &f : fs) bus_send(i, f); } }
    } else if (t[0] == "step" && (t.size() == 2 || t.size() == 3)) {
      if (p) do_step(i, t.size() == 3 ? atol(t[2].c_str()) : 0);
    } else if (t[0] == "tick" && t.size() == 2) {
      verif_now_ms += strtoull(t[1].c_str(), 0, 10);
      for (auto q : g_parts) if (q->on && q->lib) poll(q);
    } else if (t[0] == "cmd" && (t.size() == 3 || t.size() == 4)) {
      uint64_t nm = strtoull(t[1].c_str(), 0, 16); unsigned a = (unsigned)atoi(t[2].c_str()), src = t.size() == 4 ? (unsigned)atoi(t[3].c_str()) : 249;
      Frame f; f.len = 8;
      f.id = can_id(7, 60416, src, 255); unsigned char bam[8] = {32, 9, 0, 2, 255, 0xD8, 0xFE, 0}; memcpy(f.buf, bam, 8); to_all(f);
      f.id = can_id(7, 60160, src, 255); f.buf[0] = 1; for (int b = 0; b < 7; b++) f.buf[1 + b] = (unsigned char)(nm >> (8 * b)); to_all(f);
      f.buf[0] = 2; f.buf[1] = (unsigned char)(nm >> 56); f.buf[2] = (unsigned char)a; memset(f.buf + 3, 0xff, 5); to_all(f);
    } else if (t[0] == "ack" && t.size() == 2) {
      if (p && p->lib) { char b[32]; snprintf(b, 32, "ac:%d:%d ", i, (int)p->n->ReadResetAddressChanged()); out += b; }
    } else if (t[0] == "restart" && t.size() == 2) {
      if (p && p->lib && p->on) { p->n->Restart(); p->n->relocate(p->ndev); }
    } else if (t[0] == "raw" && t.size() == 4) {
      Frame f; f.id = strtoul(t[1].c_str(), 0, 16); f.len = (unsigned char)atoi(t[2].c_str());
      std::vector<uint8_t> d = unhex(t[3]); memset(f.buf, 0, 8); for (size_t b = 0; b < d.size() && b < 8; b++) f.buf[b] = d[b];
      to_all(f);
    } else out += "badop ";
    print_changes(before, out);
  }
  out += "|";
  for (size_t j = 0; j < g_parts.size(); j++) {
    Part *p = g_parts[j]; char b[160];
    snprintf(b, 160, " P%d{on=%d q=%d", (int)j, (int)p->on, (int)p->inbox.size()); out += b;
    if (p->lib) {
      snprintf(b, 160, " open=%d ac=%d", (int)p->n->OpenState, (int)p->n->ReadResetAddressChanged()); out += b;     // final dump: the indication as the application reads it
      for (int d = 0; d < p->ndev; d++) {
        tNMEA2000::tInternalDevice &dv = p->n->Devices[d];
        snprintf(b, 160, " d%d=%u/%u/%d/%llx", d, (unsigned)p->n->GetN2kSource(d), (unsigned)dv.AddressClaimEndSource, (int)dv.AddressClaimTimer.IsEnabled(), (unsigned long long)dv.DeviceInformation.GetName()); out += b;
      }
    } else { snprintf(b, 160, " f=%d/%llx", p->ref.addr, (unsigned long long)p->ref.name); out += b; }
    out += "}";
  }
  printf("%s\n", out.c_str());
  fflush(stdout);
}

int main() {
  std::string line;
#if !defined(ESP_PLATFORM)
  // 32-bit scheduler build: N2kMillis64() keeps a roll counter in function-local statics, so every case gets a fresh process
  while (std::getline(std::cin, line)) {
    fflush(stdout);
    pid_t pid = fork();
    if (pid == 0) { run_case(line); fflush(stdout); _exit(0); }
    int st = 0; waitpid(pid, &st, 0);
    if (!(WIFEXITED(st) && WEXITSTATUS(st) == 0)) { printf("crash %s\n", WIFSIGNALED(st) ? "signal" : "sanitizer"); fflush(stdout); }
  }
#else
  // 64-bit scheduler build: nodes are never destroyed (tNMEA2000 releases nothing), so batches of cases run in child processes to keep
  // the memory bounded; if a child dies, this process stops with it so that the caller sees on which case the output ends
  std::vector<std::string> batch;
  bool more = true;
  while (more) {
    batch.clear();
    while (batch.size() < 200 && (more = (bool)std::getline(std::cin, line))) batch.push_back(line);
    if (batch.empty()) break;
    fflush(stdout);
    pid_t pid = fork();
    if (pid == 0) { for (auto &l : batch) run_case(l); fflush(stdout); _exit(0); }
    int st = 0; waitpid(pid, &st, 0);
    if (!(WIFEXITED(st) && WEXITSTATUS(st) == 0)) { fflush(stdout); _exit(WIFSIGNALED(st) ? 2 : 1); }
  }
#endif
  return 0;
}
