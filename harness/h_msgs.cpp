// Correspondence harness for C05/C15: calls EVERY real PGN setter / parser / alias wrapper through the dispatch table that
// tools/cxx2coq.py generates from the same source (gen_msgs_dispatch.inc, in $VERIF_BUILD/gen_msgs).
//   (<fid> is the function name; overloads are numbered _o2, _o3 in source order)
//   S <fid> <args...>                                  -> "k<fid> S <pgn> <prio> <dest> <len> <payload hex>"
//   P <fid> <pgn> <datalen> <data hex> <args...>       -> "k<fid> P <ret> <outputs...>"       (data may be longer than datalen: garbage beyond the payload)
//   R <sfid> <pfid> <n> <n setter args...> <parser args...>
//                                                      -> "k<sfid>,<pfid> S ... | P ..."      (setter on a fresh message, then the parser on that message)
//   A <setter> <append> <header parser|-> <record parser|-> <nh> <nh header args> <k> <n> <n*k record args> <nidx>
//                                                      -> "k<setter>,<append> A <steps> S ... [| H P ...] [| I<i> P ...]*"
//      repeated-record PGNs: setter, then n calls of the append function; <steps> has per append "1+" (accepted), "0=" (refused, message
//      unchanged: PGN, priority, destination, length, payload) or "0!" (refused but changed), "-" for n = 0; then the header parser and the
//      record parser for the indices 0..nidx-1
// arguments and outputs:  i<decimal>  d<16 hex digits of the IEEE double | nan>  t<hex of the text | ->  l<comma separated integers | ->
// Every message buffer is pre-filled with 0x5A, so bytes beyond DataLen are garbage the parsers must not use.
#include "hcommon.h"
#include "N2kMsg.h"
#include "N2kMessages.h"
#include "N2kMaretron.h"
#include "NMEA2000.h"
#include <math.h>

static std::vector<void *> g_allocs;
static void free_all() { for (size_t i = 0; i < g_allocs.size(); i++) free(g_allocs[i]); g_allocs.clear(); }

static long long argI(const std::string &s) { return strtoll(s.c_str() + 1, 0, 10); }
static unsigned long long argU(const std::string &s) { return strtoull(s.c_str() + 1, 0, 10); }
static double argD(const std::string &s) { uint64_t b = strtoull(s.c_str() + 1, 0, 16); double d; memcpy(&d, &b, 8); return d; }
// text: exact-size heap copy (terminator included), so that a read past the end is a sanitizer report
static const char *argT(const std::string &s) {
  std::vector<uint8_t> v = unhex(s.substr(1));
  char *p = (char *)malloc(v.size() + 1); g_allocs.push_back(p);
  for (size_t i = 0; i < v.size(); i++) p[i] = (char)v[i];
  p[v.size()] = 0; return p;
}
static const unsigned long *argL(const std::string &s) {
  std::vector<unsigned long> v; std::string t = s.substr(1);
  if (t != "-") { std::istringstream is(t); std::string x; while (std::getline(is, x, ',')) v.push_back(strtoul(x.c_str(), 0, 10)); }
  unsigned long *p = (unsigned long *)malloc((v.size() + 1) * sizeof(unsigned long)); g_allocs.push_back(p);
  for (size_t i = 0; i < v.size(); i++) p[i] = v[i];
  p[v.size()] = 0; return p;
}
static char *newbuf(size_t n) {
  char *p = (char *)malloc(n ? n : 1); g_allocs.push_back(p);
  if (n >= 2) { p[0] = '~'; p[1] = 0; for (size_t i = 2; i < n; i++) p[i] = 0; } else if (n == 1) p[0] = 0;
  return p;
}
static void outB(std::string &o, bool b) { o += b ? " 1" : " 0"; }
static void outI(std::string &o, long long v) { char t[32]; snprintf(t, 32, " i%lld", v); o += t; }
static void outU(std::string &o, unsigned long long v) { char t[32]; snprintf(t, 32, " i%llu", v); o += t; }
static void outD(std::string &o, double d) {
  if (d != d) { o += " dnan"; return; }
  uint64_t b; memcpy(&b, &d, 8); char t[32]; snprintf(t, 32, " d%016llx", (unsigned long long)b); o += t;
}
static void outT(std::string &o, const char *p, size_t cap) {
  size_t n = 0; while (n < cap && p[n] != 0) n++;
  o += " t"; o += hex((const uint8_t *)p, n);
}

template <class T> static unsigned long long rawU(const T &x) { unsigned long long v = 0; memcpy(&v, &x, sizeof(T) < 8 ? sizeof(T) : 8); return v; }

#include "gen_msgs_dispatch.inc"

static void fresh(tN2kMsg &M) { memset(M.Data, 0x5A, sizeof(M.Data)); }
static std::string show_msg(const tN2kMsg &M) {
  char t[64]; snprintf(t, 64, "S %lu %u %u %d ", M.PGN, (unsigned)M.Priority, (unsigned)M.Destination, M.DataLen);
  int n = M.DataLen; if (n < 0) n = 0; if (n > tN2kMsg::MaxDataLen) n = tN2kMsg::MaxDataLen;
  return std::string(t) + hex(M.Data, n);
}

int main() {
  std::string line;
  while (std::getline(std::cin, line)) {
    std::vector<std::string> t = split(line);
    std::string res;
    if (t.empty()) { printf("skip\n"); fflush(stdout); continue; }
    if (t[0] == "S" && t.size() >= 2) {
      tN2kMsg M; fresh(M);
      std::vector<std::string> a(t.begin() + 2, t.end()); std::string o;
      if (call_fn(fid_of_name(t[1]), a, M, o)) {
        res = "k" + t[1] + " " + show_msg(M);
        // the same long-lived message object filled again (the pattern of a periodic sender): a setter starts from an empty message
        // whatever the object held, so the second result must equal the first (the model has no such history: a difference shows as a disagreement)
        std::string first = show_msg(M), o2;
        if (call_fn(fid_of_name(t[1]), a, M, o2) && show_msg(M) != first) res += " | refilled " + show_msg(M);
        // ... and an object that starts with a length but no PGN (the constructor's _DataLen argument, or bytes added before the PGN was given):
        // the setter still starts from an empty message (seed C05-23)
        tN2kMsg P(15, 6, 0, 8); memset(P.Data, 0x33, 8); std::string o3;
        if (call_fn(fid_of_name(t[1]), a, P, o3) && show_msg(P) != first) res += " | preset-length " + show_msg(P);
      } else res = "badcase";
    } else if (t[0] == "B" && t.size() == 4) {
      // N2kSetStatusBinaryOnStatus / N2kGetStatusOnBinaryStatus (bank status of PGN 127501): B <bank hex> <status 0..3> <item index>
      tN2kBinaryStatus b = strtoull(t[1].c_str(), 0, 16);
      N2kSetStatusBinaryOnStatus(b, (tN2kOnOff)atoi(t[2].c_str()), (uint8_t)atoi(t[3].c_str()));
      char h[40]; snprintf(h, 40, "kB %016llx ", (unsigned long long)b); res = h;
      for (int i = 0; i < 30; i++) res += (char)('0' + (int)N2kGetStatusOnBinaryStatus(b, (uint8_t)i));
    } else if (t[0] == "P" && t.size() >= 5) {
      tN2kMsg M; fresh(M);
      M.PGN = strtoul(t[2].c_str(), 0, 10); int dl = atoi(t[3].c_str());
      std::vector<uint8_t> d = unhex(t[4]);
      for (size_t i = 0; i < d.size() && i < sizeof(M.Data); i++) M.Data[i] = d[i];
      M.DataLen = dl;
      std::vector<std::string> a(t.begin() + 5, t.end()); std::string o;
      if (call_fn(fid_of_name(t[1]), a, M, o)) res = "k" + t[1] + " P" + o; else res = "badcase";
    } else if (t[0] == "R" && t.size() >= 4) {
      tN2kMsg M; fresh(M);
      size_t n = (size_t)atoi(t[3].c_str());
      if (t.size() < 4 + n) res = "badcase";
      else {
        std::vector<std::string> a(t.begin() + 4, t.begin() + 4 + n), b(t.begin() + 4 + n, t.end()); std::string o1, o2;
        if (call_fn(fid_of_name(t[1]), a, M, o1)) {
          std::string s1 = show_msg(M);
          if (call_fn(fid_of_name(t[2]), b, M, o2)) res = "k" + t[1] + "," + t[2] + " " + s1 + " | P" + o2; else res = "badcase";
        } else res = "badcase";
      }
    } else if (t[0] == "A" && t.size() >= 9) {
      tN2kMsg M; fresh(M);
      size_t pos = 5; size_t nh = (size_t)atoi(t[pos++].c_str());
      if (t.size() < pos + nh + 3) res = "badcase";
      else {
        std::vector<std::string> h(t.begin() + pos, t.begin() + pos + nh); pos += nh;
        size_t k = (size_t)atoi(t[pos++].c_str()), n = (size_t)atoi(t[pos++].c_str());
        std::string o;
        if (t.size() != pos + n * k + 1 || !call_fn(fid_of_name(t[1]), h, M, o)) res = "badcase";
        else {
          std::string steps; bool ok = true;
          for (size_t i = 0; i < n && ok; i++) {
            std::vector<std::string> a(t.begin() + pos + i * k, t.begin() + pos + (i + 1) * k);
            tN2kMsg B = M; std::string r;
            ok = call_fn(fid_of_name(t[2]), a, M, r);
            if (r == " 1") steps += "1+";
            else {
              bool same = B.PGN == M.PGN && B.Priority == M.Priority && B.Destination == M.Destination && B.DataLen == M.DataLen &&
                          (M.DataLen <= 0 || memcmp(B.Data, M.Data, (size_t)M.DataLen) == 0);
              steps += same ? "0=" : "0!";
            }
          }
          if (n == 0) steps = "-";
          size_t nidx = (size_t)atoi(t[pos + n * k].c_str());
          res = "k" + t[1] + "," + t[2] + " A " + steps + " " + show_msg(M);
          if (ok && t[3] != "-") { std::string r; std::vector<std::string> none; ok = call_fn(fid_of_name(t[3]), none, M, r); res += " | H P" + r; }
          for (size_t i = 0; i < nidx && ok && t[4] != "-"; i++) {
            char ib[24]; snprintf(ib, 24, "i%u", (unsigned)i); std::vector<std::string> a(1, ib); std::string r;
            ok = call_fn(fid_of_name(t[4]), a, M, r);
            snprintf(ib, 24, " | I%u P", (unsigned)i); res += ib + r;
          }
          if (!ok) res = "badcase";
        }
      }
    } else res = "badcase";
    free_all();
    printf("%s\n", res.c_str());
    fflush(stdout);
  }
  return 0;
}
