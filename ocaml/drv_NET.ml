(* driver for the extracted network model (Model/NetDefs.v): same line protocol as harness/h_net.cpp
     NET t0=<ms> | <participant> <participant> ... | op ; op ; ...
   participant:  L<mode>:<addr>.<namehex>,<addr>.<namehex>,...   library instance, one entry per device
                 F:<addr>.<namehex>                               foreign ISO 11783-5 reference node
   ops: start i | join i | step i [k] | tick dt | cmd <namehex> <addr> [toolsrc] | ack i | restart i | raw <idhex> <len> <8 bytes hex>
        drain   (macro: while some started participant has a pending frame, the lowest such participant processes its oldest one;
                 every delivery is announced by dl:<i> in the output; at most 2000 deliveries)
   A second line type explores every schedule of the MODEL network (search, not proof):
     EXPL t0=<ms> ticks=<n> depth=<n> | participants | prefix ops
*)
let zi = z_of_int
let str_bytes s = List.init (String.length s) (fun i -> zi (Char.code s.[i]))
let pad32 s = let b = str_bytes s in b @ List.init (32 - List.length b) (fun _ -> zi 255)
let le2 v = [zi (v land 255); zi ((v lsr 8) land 255)]
let varstr s = if s = "" then [zi 2; zi 1] else [zi (String.length s + 2); zi 1] @ str_bytes s
let def_prodinfo = le2 2101 @ le2 666 @ pad32 "Arduino N2k->PC" @ pad32 "1.0.0.0" @ pad32 "1.0.0" @ pad32 "00000001" @ [zi 0; zi 1]
let def_confinfo = varstr "" @ varstr "" @ varstr "NMEA2000 library, https://github.com/ttlappalainen/NMEA2000"

let parse_part w64 t0 tok =
  let colon = String.index tok ':' in
  let head = String.sub tok 0 colon and body = String.sub tok (colon + 1) (String.length tok - colon - 1) in
  let ents = List.map (fun e -> let d = String.index e '.' in
                        (int_of_string (String.sub e 0 d), zhex (String.sub e (d+1) (String.length e - d - 1))))
      (List.filter (fun x -> x <> "") (String.split_on_char ',' body)) in
  if head.[0] = 'F' then (match ents with (a, nm) :: _ -> PRef (mk_fnode (zi a) nm) | [] -> failwith "F")
  else begin
    let mode = int_of_string (String.sub head 1 (String.length head - 1)) in
    let ndev = List.length ents in
    let devs = List.map (fun (a, nm) -> mk_dev w64 (zi (a land 255)) nm []) ents in
    let pc = { sf0 = None; sf1 = None; fp0 = None; fp1 = None } in
    let rcfg = { c_only_known = false; c_iso_handler = None; c_prodinfo = def_prodinfo; c_confinfo = def_confinfo; c_hb_on = true;
                 c_inst1 = []; c_inst2 = []; c_manuf = str_bytes "NMEA2000 library, https://github.com/ttlappalainen/NMEA2000"; c_inst_changed = false } in
    PLib (cold_node w64 (zi mode) t0 (zi (40 * ndev)) (zi 5) pc devs (List.init ndev (fun _ -> [])) rcfg)
  end

let parse_op s = match split s with
  | ["start"; i] | ["join"; i] -> Some (NStart (z_of_string i))
  | ["step"; i] -> Some (NStep (z_of_string i, zi 0))
  | ["step"; i; k] -> Some (NStep (z_of_string i, z_of_string k))
  | ["tick"; dt] -> Some (NTick (z_of_string dt))
  | ["cmd"; nm; a] -> Some (NCmd (zhex nm, z_of_string a, zi 249))
  | ["cmd"; nm; a; src] -> Some (NCmd (zhex nm, z_of_string a, z_of_string src))
  | ["ack"; i] -> Some (NAck (z_of_string i))
  | ["restart"; i] -> Some (NRestart (z_of_string i))
  | ["raw"; id; len; data] -> let d = unhex data in
    Some (NRaw { r_id = zhex id; r_len = z_of_string len; r_buf = List.init 8 (fun i -> if i < List.length d then List.nth d i else zi 0) })
  | _ -> None

let rec take n l = if n <= 0 then [] else match l with [] -> [] | x :: r -> x :: take (n-1) r
let frame_s f = Printf.sprintf "%s:%s:%s" (hex_of_z 1 f.r_id) (string_of_z f.r_len) (hex (take (int_of_z f.r_len) f.r_buf))
let ev_s = function
  | NTx (i, f) -> Printf.sprintf "tx:%s:%s " (string_of_z i) (frame_s f)
  | NAc (i, b) -> Printf.sprintf "ac:%s:%s " (string_of_z i) (bool_s b)
let part_flag p = match p.p_kind with PLib r -> bool_s r.rn.n_addr_changed | PRef _ -> "-"
let changes nt nt' =
  let b = Buffer.create 64 in
  List.iteri (fun i (p, p') ->
      List.iteri (fun d (a, a') -> if a <> a' then Buffer.add_string b (Printf.sprintf "chg:%d.%d:%s:%s:%s " i d (string_of_z a) (string_of_z a') (part_flag p')))
        (List.combine (part_addrs p) (part_addrs p'))) (List.combine nt.nt_parts nt'.nt_parts);
  Buffer.contents b
let any_oob nt = List.exists (fun p -> match p.p_kind with PLib r -> r.r_oob | PRef _ -> false) nt.nt_parts
let dump w64 nt =
  let b = Buffer.create 256 in
  List.iteri (fun i p ->
      Buffer.add_string b (Printf.sprintf " P%d{on=%s q=%d" i (bool_s p.p_on) (List.length p.p_inbox));
      (match p.p_kind with
       | PLib r ->
         Buffer.add_string b (Printf.sprintf " open=%s ac=%s" (string_of_z r.rn.n_open) (bool_s r.rn.n_addr_changed));
         List.iteri (fun d dv -> Buffer.add_string b (Printf.sprintf " d%d=%s/%s/%s/%s" d (string_of_z dv.d_src) (string_of_z dv.d_claim_end)
                                                        (bool_s (sched_is_enabled w64 dv.d_claim_timer)) (hex_of_z 1 dv.d_name))) r.rn.n_devs
       | PRef f -> Buffer.add_string b (Printf.sprintf " f=%s/%s" (string_of_z f.fn_addr) (hex_of_z 1 f.fn_name)));
      Buffer.add_string b "}") nt.nt_parts;
  Buffer.contents b

let kvs s = List.filter_map (fun c -> match String.index_opt c '=' with
    | Some e -> Some (String.sub c 0 e, String.sub c (e+1) (String.length c - e - 1)) | None -> None) (split s)

(* ---------- exhaustive exploration of the model network (search) ---------- *)
let quiescent w64 nt =
  List.for_all (fun p -> (not p.p_on) || (p.p_inbox = [] && (match p.p_kind with
      | PLib r -> List.for_all (fun dv -> not (sched_is_enabled w64 dv.d_claim_timer)) r.rn.n_devs
      | PRef _ -> true))) nt.nt_parts
let unique_ok nt =
  let all = List.concat (List.map (fun p -> if p.p_on then part_addrs p else []) nt.nt_parts) in
  let ops = List.filter (fun a -> int_of_z a <= 251) all in
  List.length (List.sort_uniq compare (List.map int_of_z ops)) = List.length ops
let explore w64 nt0 max_ticks max_depth =
  let seen = Hashtbl.create 4096 in
  let states = ref 0 and terminals = ref 0 and bad = ref 0 and cut = ref 0 and maxd = ref 0 and witness = ref "" and cycles = ref 0 in
  let rec go nt ticks depth path =
    let key = (Digest.string (Marshal.to_string nt [Marshal.No_sharing]), ticks) in
    (match Hashtbl.find_opt seen key with Some true -> incr cycles | _ -> ());
    if not (Hashtbl.mem seen key) then begin
      Hashtbl.add seen key true; incr states;
      if depth > !maxd then maxd := depth;
      (* moves: every distinct pending frame of every participant; a tick of one claim window *)
      let moves = ref [] in
      List.iteri (fun i p -> if p.p_on then begin
          let seenf = ref [] in
          List.iteri (fun k f -> if not (List.mem f !seenf) then begin seenf := f :: !seenf; moves := (NStep (zi i, zi k), Printf.sprintf "step %d %d" i k, 0) :: !moves end) p.p_inbox end) nt.nt_parts;
      let pending = !moves <> [] in
      if (not (quiescent w64 nt)) && (ticks < max_ticks || not pending) then moves := (NTick (zi 251), "tick 251", if pending then 1 else 0) :: !moves;
      if !moves = [] then begin
        incr terminals;
        if not (unique_ok nt) then begin incr bad; if !witness = "" then witness := String.concat " ; " (List.rev path) end
      end else if depth >= max_depth then incr cut
      else List.iter (fun (o, s, tcost) -> let (nt', _) = net_step gf_none nt o in go nt' (ticks + tcost) (depth + 1) (s :: path)) !moves;
      Hashtbl.replace seen key false
    end in
  go nt0 0 0 [];
  Printf.printf "expl states=%d terminals=%d nonunique=%d cut=%d cycles=%d maxdepth=%d%s" !states !terminals !bad !cut !cycles !maxd (if !witness = "" then "" else " witness=[" ^ !witness ^ "]")

let first_pending nt =
  let rec go i = function [] -> None | p :: r -> if p.p_on && p.p_inbox <> [] then Some i else go (i+1) r in go 0 nt.nt_parts

let () =
  let w64 = (Array.length Sys.argv < 2) || Sys.argv.(1) <> "w32" in
  try while true do
    let line = input_line stdin in
    (match String.split_on_char '|' line with
     | [cfg; parts; opss] when String.length cfg > 4 && (String.sub cfg 0 4 = "NET " || String.sub cfg 0 4 = "EXPL") ->
       let kv = kvs cfg in
       let get k d = try List.assoc k kv with Not_found -> d in
       let t0 = z_of_string (get "t0" "5000") in
       let nt0 = mk_net (List.map (parse_part w64 t0) (split parts)) in
       let opstrs = String.split_on_char ';' opss in
       let ops = List.map parse_op opstrs in
       if String.sub cfg 0 4 = "EXPL" then begin
         let (nt, _) = net_run gf_none nt0 (List.filter_map (fun x -> x) ops) in
         explore w64 nt (int_of_string (get "ticks" "2")) (int_of_string (get "depth" "60"))
       end else begin
         let b = Buffer.create 1024 in
         let nt = ref nt0 and first = ref true in
         List.iter2 (fun o s ->
             if not !first then Buffer.add_string b "; "; first := false;
             match o with
             | Some o -> let (nt', evs) = net_step gf_none !nt o in
               List.iter (fun e -> Buffer.add_string b (ev_s e)) evs;
               Buffer.add_string b (changes !nt nt'); nt := nt'
             | None ->
               if split s = ["drain"] then begin
                 let fuel = ref 2000 in
                 let rec loop () = match first_pending !nt with
                   | Some i when !fuel > 0 -> decr fuel;
                     Buffer.add_string b (Printf.sprintf "dl:%d " i);
                     let (nt', evs) = net_step gf_none !nt (NStep (zi i, zi 0)) in
                     List.iter (fun e -> Buffer.add_string b (ev_s e)) evs;
                     Buffer.add_string b (changes !nt nt'); nt := nt'; loop ()
                   | _ -> () in loop ()
               end else if split s <> [] then Buffer.add_string b "badop ") ops opstrs;
         if any_oob !nt then print_string "oob" else begin print_string (Buffer.contents b); print_string "|"; print_string (dump w64 !nt) end
       end
     | _ -> print_string "badcase");
    print_newline ()
  done with End_of_file -> ()
