(* driver for the extracted Actisense model: same line protocol as harness/h_acti.cpp *)
let msg_of = function
  | [p; g; d; s; t; h] -> { pri = z_of_string p; pgn = z_of_string g; dst = z_of_string d; src = z_of_string s; tim = z_of_string t; data = unhex h }
  | _ -> failwith "msg"
let msg_text m =
  Printf.sprintf " | %s %s %s %s %s %s" (string_of_z m.pri) (string_of_z m.pgn) (string_of_z m.dst) (string_of_z m.src) (string_of_z m.tim) (hex m.data)
let rec repeat x n = if n <= 0 then [] else x :: repeat x (n-1)
let b2s b = if b then "1" else "0"
let () =
  try while true do
    let line = input_line stdin in
    (match split line with
     | "ENC" :: rest when List.length rest >= 6 ->
       (match encode (msg_of rest) with
        | OOB -> print_string "oob" | Fuel -> print_string "fuel"
        | Ok out -> Printf.printf "enc %s" (hex out))
     | ["DEC"; fill; now; d; ro; _cuts; h] ->
       let s0 = init (repeat (z_of_string fill) 300) (z_of_string d) in
       (match run_ro (z_of_string now) s0 (unhex h) with
        | OOB -> print_string "oob" | Fuel -> print_string "fuel"
        | Ok ((s, ms), sk) ->
          Printf.printf "dec %d%s | st %s%s%s %d %s | skip %s" (List.length ms) (String.concat "" (List.map msg_text ms))
            (b2s s.coming) (b2s s.sot) (b2s s.escd) (List.length s.buf) (string_of_z s.bsum)
            (if ro = "0" then hex sk else "-"))
     | "RT" :: rest when List.length rest >= 6 ->
       (match encode (msg_of rest) with
        | OOB -> print_string "oob" | Fuel -> print_string "fuel"
        | Ok out ->
          (match run Z0 (init (repeat Z0 300) (z_of_int 65)) out with
           | OOB -> print_string "oob" | Fuel -> print_string "fuel"
           | Ok (_, ms) -> Printf.printf "rt %d%s" (List.length ms) (String.concat "" (List.map msg_text ms))))
     | [] -> print_string "skip"
     | _ -> print_string "badcase");
    print_newline ()
  done with End_of_file -> ()
