(* driver for the extracted Actisense model: same line protocol as harness/h_acti.cpp *)
let msg_of = function
  | [p; g; d; s; t; h] -> { pri = z_of_string p; pgn = z_of_string g; dst = z_of_string d; src = z_of_string s; tim = z_of_string t; data = unhex h }
  | _ -> failwith "msg"
let msg_text m =
  Printf.sprintf " | %s %s %s %s %s %s" (string_of_z m.pri) (string_of_z m.pgn) (string_of_z m.dst) (string_of_z m.src) (string_of_z m.tim) (hex m.data)
let rec repeat x n = if n <= 0 then [] else x :: repeat x (n-1)
let b2s b = if b then "1" else "0"
(* FWD: the forwarding path.  The model gets, per op, the flags own/known/system (computed by the case generator), whether the op is a
   reception (R) or an own send (S), and the complete message; it answers with the bytes written to the forward stream and what one
   reader attached to that stream for the whole case reports.  The CAN frames / SendMsg arguments behind <at> are for the C++ only. *)
exception Model_oob
let fwd_line line =
  match String.index_opt line '|' with
  | None -> "badcase"
  | Some bar ->
    let cfg = List.filter_map (fun t -> match String.index_opt t '=' with
        | Some i -> Some (String.sub t 0 i, String.sub t (i+1) (String.length t - i - 1)) | None -> None)
        (split (String.sub line 3 (bar - 3))) in
    let get k = try List.assoc k cfg with Not_found -> "" in
    let mode = (try int_of_string (get "mode") with _ -> -1) in
    let t0ok = (try z_of_string (get "t0") with _ -> Z0) in
    let big = (match Z.sub t0ok (z_of_int 1000) with Zneg _ -> false | _ -> true) in
    if mode < 0 || mode > 4 || not big then "badcase" else
    let c = { fw_enable = (get "en" = "1"); fw_system = (get "sys" = "1"); fw_known = (get "ok" = "1"); fw_own = (get "own" = "1");
              fw_mode = z_of_int mode } in
    let ops = String.split_on_char ';' (String.sub line (bar + 1) (String.length line - bar - 1)) in
    let st = ref (init (repeat Z0 300) (z_of_int 65)) in
    let texts = ref [] in
    (try
      List.iter (fun opstr ->
        match split opstr with
        | [] -> ()
        | k :: fl :: p :: g :: d :: s :: t :: h :: rest
          when String.length fl >= 3 && ((k = "R" && List.length rest >= 2) || (k = "S" && List.length rest >= 4)) ->
          let m = msg_of [p; g; d; s; t; h] in
          let b i = fl.[i] = '1' in
          (match forwarded_bytes c (b 0) (b 1) (b 2) (k = "R") m with
           | Ok out ->
             (match run Z0 !st out with
              | Ok (st', ms) ->
                st := st';
                texts := Printf.sprintf "%s %d%s" (hex out) (List.length ms) (String.concat "" (List.map msg_text ms)) :: !texts
              | _ -> raise Model_oob)
           | _ -> raise Model_oob)
        | _ -> texts := "badop" :: !texts) ops;
      if !texts = [] then "fwd" else "fwd " ^ String.concat " ; " (List.rev !texts)
    with Model_oob -> "oob")
let () =
  try while true do
    let line = input_line stdin in
    (match split line with
     | "FWD" :: _ -> print_string (fwd_line line)
     | "ENC" :: rest when List.length rest >= 6 ->
       (match encode (msg_of rest) with
        | OOB -> print_string "oob" | Fuel -> print_string "fuel"
        | Ok out -> Printf.printf "enc %s" (hex out))
     | ["DEC"; fill; now; d; ro; _cuts; h] ->
       let s0 = init (repeat (z_of_string fill) 300) (z_of_string d) in
       (match run_ro (z_of_string now) s0 (unhex h) with
        | OOB -> print_string "oob" | Fuel -> print_string "fuel"
        | Ok ((s, ms), sk) ->
          Printf.printf "dec %d%s | st %s%s%s %d %s | skip %s" (List.length ms) (String.concat "" (List.map msg_text ms))
            (b2s s.coming) (b2s s.sot) (b2s s.escd) (List.length s.buf) (string_of_z s.bsum)
            (if ro = "0" then hex sk else "-"))
     | "RT" :: rest when List.length rest >= 6 ->
       (match encode (msg_of rest) with
        | OOB -> print_string "oob" | Fuel -> print_string "fuel"
        | Ok out ->
          (match run Z0 (init (repeat Z0 300) (z_of_int 65)) out with
           | OOB -> print_string "oob" | Fuel -> print_string "fuel"
           | Ok (_, ms) -> Printf.printf "rt %d%s" (List.length ms) (String.concat "" (List.map msg_text ms))))
     | [] -> print_string "skip"
     | _ -> print_string "badcase");
    print_newline ()
  done with End_of_file -> ()
