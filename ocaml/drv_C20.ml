(* driver for the extracted ring models; also runs the list-machine specifications on the same sequence and flags a mismatch *)
let num s = z_of_string s
let tail1 s = String.sub s 1 (String.length s - 1)
let parse_pv s = (* "<p>:<v>" or "<p>" *)
  match String.index_opt s ':' with
  | Some i -> (num (String.sub s 0 i), num (String.sub s (i+1) (String.length s - i - 1)))
  | None -> ((if s = "" then Z0 else num s), Z0)
let () =
  try while true do
    let line = input_line stdin in
    (match split line with
     | "PLAIN" :: size :: ops ->
       let rops = List.map (fun o -> match o.[0] with
           | 'a' | 'A' -> RAdd (num (tail1 o)) | 'r' | 'R' -> RRead | 'p' -> RPeek | 'c' -> RClear | 'n' -> RCount | _ -> RIsEmpty) ops in
       let (r, outs) = ring_run (ring_new (num size)) rops in
       let (_, souts) = fifo_run (Z.sub (clamp_size (num size)) (z_of_int 1)) [] rops in
       if outs <> souts then print_string "SPEC-MISMATCH " ;
       List.iter (fun o -> print_string (match o with
           | OBool b -> bool_s b ^ " " | OVal None -> "- " | OVal (Some v) -> string_of_z v ^ " " | ONum n -> string_of_z n ^ " " | OUnit -> ". ")) outs;
       Printf.printf "| %s %s" (string_of_z r.rhead) (string_of_z r.rtail)
     | "PRIO" :: size :: maxp :: ops ->
       let pops = List.map (fun o -> match o.[0] with
           | 'a' | 'A' -> let (p, v) = parse_pv (tail1 o) in PAdd (p, v)
           | 'r' | 'R' -> PReadAny | 'q' -> PReadPri (fst (parse_pv (tail1 o)))
           | 'c' -> PClear | 'n' -> PCount | _ -> PIsEmpty (fst (parse_pv (tail1 o)))) ops in
       let (r, outs) = pring_run (pring_new (num size) (num maxp)) pops in
       let (_, souts) = pspec_run (clamp_size (num size)) (clamp_pri (num maxp)) [] pops in
       if outs <> souts then print_string "SPEC-MISMATCH " ;
       List.iter2 (fun o tok -> print_string (match o with
           | QBool b -> bool_s b ^ " " | QVal None -> "- " | QVal (Some v) -> string_of_z v ^ " "
           | QValPri None -> "- " | QValPri (Some (v, p)) -> if tok.[0] = 'r' then string_of_z v ^ " " else string_of_z v ^ ":" ^ string_of_z p ^ " "
           | QNum n -> string_of_z n ^ " " | QUnit -> ". ")) outs ops;
       Printf.printf "| %s %s" (string_of_z r.phead) (string_of_z r.ptail)
     | _ -> print_string "badcase");
    print_newline ()
  done with End_of_file -> ()
