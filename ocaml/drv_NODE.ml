(* driver for the extracted node model: same line protocol as harness/h_node.cpp *)
let zi = z_of_int
let plist v = List.map z_of_string (List.filter (fun x -> x <> "") (String.split_on_char ',' v))
let ev_s = function
  | EvTx (id, len, data, ok) -> Printf.sprintf "tx:%s:%s:%s:%s " (hex_of_z 1 id) (string_of_z len) (hex data) (if ok then "1" else "0")
  | EvResult b -> if b then "res:1 " else "res:0 "
  | EvDeliver m -> Printf.sprintf "dlv:%s:%s:%s:%s:%d:%s " (string_of_z m.m_pri) (string_of_z m.m_pgn) (string_of_z m.m_src) (string_of_z m.m_dst) (List.length m.m_data) (hex m.m_data)
  | EvNote c -> let k = int_of_z c in if k = 1 then "note:open " else if k >= 1000000 then Printf.sprintf "note:iso:%d " (k - 1000000) else Printf.sprintf "note:%d " k
let sched_s w64 s = if sched_is_enabled w64 s then string_of_z s else "off"
let str_bytes s = List.init (String.length s) (fun i -> zi (Char.code s.[i]))
let pad32 s = let b = str_bytes s in b @ List.init (32 - List.length b) (fun _ -> zi 255)
let le2 v = [zi (v land 255); zi ((v lsr 8) land 255)]
let varstr s = if s = "" then [zi 2; zi 1] else [zi (String.length s + 2); zi 1] @ str_bytes s
(* defaults of NMEA2000.cpp: DefProductInformation, DefManufacturerInformation, DefInstallationDescription1/2 *)
let def_prodinfo = le2 2101 @ le2 666 @ pad32 "Arduino N2k->PC" @ pad32 "1.0.0.0" @ pad32 "1.0.0" @ pad32 "00000001" @ [zi 0; zi 1]
let def_confinfo = varstr "" @ varstr "" @ varstr "NMEA2000 library, https://github.com/ttlappalainen/NMEA2000"
let () =
  let w64 = (Array.length Sys.argv < 2) || Sys.argv.(1) <> "w32" in
  try while true do
    let line = input_line stdin in
    (match String.index_opt line '|' with
     | Some bar when String.length line > 4 && String.sub line 0 4 = "NODE" ->
       let cfg = split (String.sub line 4 (bar - 4)) in
       let kv = List.filter_map (fun c -> match String.index_opt c '=' with
           | Some e -> Some (String.sub c 0 e, String.sub c (e+1) (String.length c - e - 1)) | None -> None) cfg in
       let get k d = try List.assoc k kv with Not_found -> d in
       let geto k = try Some (plist (List.assoc k kv)) with Not_found -> None in
       let mode = int_of_string (get "mode" "1") and ndev = int_of_string (get "ndev" "1") and src = int_of_string (get "src" "22") in
       let q = int_of_string (get "q" "40") and nsl = int_of_string (get "slots" "5") in
       let nsl = if nsl = 0 then 5 else nsl in
       let t0 = z_of_string (get "t0" "5000") in
       let cold = get "cold" "0" = "1" and hb = get "hb" "0" = "1" in
       let pc = { sf0 = geto "sf0"; sf1 = geto "sf1"; fp0 = geto "fp0"; fp1 = geto "fp1" } in
       let name i =
         let unique = 1 + i and manuf = 2046 and devinst = 0 and func = 130 and cls = 25 and sysinst = 0 and industry = 4 in
         let lo = (unique land 0x1fffff) lor ((manuf land 0x7ff) lsl 21) in
         let hi = (devinst land 0xff) lor ((func land 0xff) lsl 8) lor (((cls land 0x7f) lsl 1) lsl 16) lor ((0x80 lor ((industry land 7) lsl 4) lor (sysinst land 0xf)) lsl 24) in
         Z.add (zi lo) (Z.mul (zi hi) (z_of_string "4294967296")) in
       let lst k i = match geto (Printf.sprintf "%s%d" k i) with Some l -> l | None -> [] in
       (* SetMode: N2kSource = set_mode_src src i (Model/SetModeDefs.v), AddressClaimEndSource follows; timers are default constructed (disabled) *)
       let devs = List.init ndev (fun i -> mk_dev w64 (set_mode_src (zi src) (zi i)) (name i) (lst "tx" i)) in
       let rcfg = { c_only_known = (get "ok" "0" = "1"); c_iso_handler = geto "iso"; c_prodinfo = def_prodinfo; c_confinfo = (if get "noconf" "0" = "1" then [] else def_confinfo); c_hb_on = hb;
                    c_inst1 = []; c_inst2 = []; c_manuf = str_bytes "NMEA2000 library, https://github.com/ttlappalainen/NMEA2000"; c_inst_changed = false } in
       (* conf=<hex inst1>,<hex inst2>,<hex manufacturer>: the application called SetConfigurationInformation (- = empty string) *)
       (* pconf= (SetProgmemConfigurationInformation with strings of at most 70 characters) leaves the node with the same strings and payload *)
       (* both given: the later call counts - conf, or with cthenp=1 the constant strings of pconf *)
       let rcfg = match (if get "cthenp" "0" = "1" && List.mem_assoc "pconf" kv then Some (List.assoc "pconf" kv) else
                           try Some (List.assoc "conf" kv) with Not_found -> (try Some (List.assoc "pconf" kv) with Not_found -> None)) with
         | Some c -> (match String.split_on_char ',' c with
             (* ~ = null pointer: an omitted string is sent as an empty one; with all three omitted there is no configuration information at all *)
             | ["~"; "~"; "~"] -> { rcfg with c_confinfo = []; c_inst1 = []; c_inst2 = []; c_manuf = [] }
             | [a; b; m] -> let u s = if s = "~" then [] else unhex s in set_configuration_information rcfg (u m) (u a) (u b)
             | _ -> rcfg)
         | None -> rcfg in
       (* prod=<hex model id>,<hex software code>,<hex model version>,<hex serial code>: SetProductInformation for device 0 *)
       let rcfg = match (try Some (List.assoc "prod" kv) with Not_found -> (try Some (List.assoc "pprod" kv) with Not_found -> None)) with     (* pprod = the pointer variant: same content *)
         | Some c -> (match String.split_on_char ',' c with
             | [m; s; v; ser] -> set_product_information rcfg (unhex ser) (zi 666) (unhex m) (unhex s) (unhex v) (zi 1) (zi 2101) (zi 0)
             | _ -> rcfg)
         | None -> rcfg in
       let start = if cold then t0 else Z.sub t0 (zi 1000) in
       let r0 = cold_node w64 (zi mode) start (zi (q * ndev)) (zi nsl) pc devs (List.init ndev (fun i -> lst "rx" i)) rcfg in
       let r0 = if cold then r0 else prelude gf_none r0 hb t0 in
       let opstrs = String.split_on_char ';' (String.sub line (bar+1) (String.length line - bar - 1)) in
       let base_op s = match split s with
           | ["T"; dt] -> Some (RBase (OTick (z_of_string dt)))
           | ["A"] -> Some (RBase (OAccept []))
           | ["A"; p] -> Some (RBase (OAccept (List.init (String.length p) (fun i -> p.[i] = '1'))))
           | ["S"; idev; pri; pgn; s; d; tp; data] ->
             Some (RBase (OSend (z_of_string idev, { m_pri = z_of_string pri; m_pgn = z_of_string pgn; m_src = z_of_string s; m_dst = z_of_string d; m_data = unhex data; m_tp = (tp = "1") })))
           | ["Z"; _; _] -> Some (RBase (OTick (zi 0)))        (* sizing call after initialisation: no effect *)
           | ["F"] -> Some (RBase OFlush)
           | ["C"; i] -> Some (RBase (OStartClaim (z_of_string i)))
           | ["P"] -> Some RPoll
           | ["R"; id; len; data] -> let d = unhex data in
             Some (RRx { r_id = zhex id; r_len = z_of_string len; r_buf = List.init 8 (fun i -> if i < List.length d then List.nth d i else zi 0) })
           | ["H"; iv] -> Some (RSetHeartbeat (z_of_string iv, zi 0, zi (-1)))   (* documented defaults: offset 0, all devices *)
           | ["H"; iv; off] -> Some (RSetHeartbeat (z_of_string iv, z_of_string off, zi (-1)))
           | ["H"; iv; off; idev] -> Some (RSetHeartbeat (z_of_string iv, z_of_string off, z_of_string idev))
           | _ -> None in
       (* public calls of the application (Model/ApiDefs.v); everything else is an operation of Model/NodeRxDefs.v *)
       let ops = List.map (fun s -> match split s with
           | ["Q"; "ac"; dst; idev; delay] -> Some (XApi (ASendClaim (z_of_string dst, z_of_string idev, z_of_string delay)))
           | ["Q"; "pi"; idev] -> Some (XApi (ASendProd (z_of_string idev)))
           | ["Q"; "ci"; idev] -> Some (XApi (ASendConf (z_of_string idev)))
           | ["Q"; "tx"; dst; idev; tp] -> Some (XApi (ASendTxList (z_of_string dst, z_of_string idev, (tp = "1"))))
           | ["Q"; "rx"; dst; idev; tp] -> Some (XApi (ASendRxList (z_of_string dst, z_of_string idev, (tp = "1"))))
           | ["Q"; "hb"; force] -> Some (XApi (ASendHeartbeatAll (force = "1")))
           | ["Q"; "hd"; idev] -> Some (XApi (ASendHeartbeatDev (z_of_string idev)))
           | ["Q"; "hi"; iv; idev] -> Some (XBase (RSetHeartbeat (z_of_string iv, z_of_string "4294967295", z_of_string idev)))   (* deprecated alias SetHeartbeatInterval *)
           | ["I"; idev; lo; up; si] -> Some (XApi (ASetInstances (z_of_string idev, z_of_string lo, z_of_string up, z_of_string si)))
           | ["D"; idev; u; f; c; m; g] -> Some (XApi (ASetDeviceInformation (z_of_string idev, z_of_string u, z_of_string f, z_of_string c, z_of_string m, z_of_string g)))
           | ["X"] -> Some (XApi ARestart)
           | ["M"; mode; src] -> Some (XApi (ASetMode (z_of_string mode, z_of_string src)))
           | ["W"; "t"; idev; l] -> Some (XApi (ASetTxList (z_of_string idev, plist (if l = "-" then "" else l))))
           | ["W"; "r"; idev; l] -> Some (XApi (ASetRxList (z_of_string idev, plist (if l = "-" then "" else l))))
           | ["O"; "0"; b] -> Some (XApi (ASetOnlyKnown (b = "1")))
           | ["O"; _; _] -> Some (XBase (RBase (OTick (zi 0))))       (* forwarding options: no effect without a forward stream *)
           | ["K"; _; m; s; v; ser] -> let u x = if x = "~" then [] else unhex x in     (* ~ = null pointer: the field is left empty *)
             Some (XApi (ASetProductInformation (u ser, zi 666, u m, u s, u v, zi 1, zi 2101, zi 0)))
           | ["L"; which; l] -> Some (XApi (ASetPgnList (z_of_string which, plist (if l = "-" then "" else l))))
           | _ -> (match base_op s with Some o -> Some (XBase o) | None -> None)) opstrs in
       let nonempty = List.map (fun s -> split s <> []) opstrs in
       (* onopen=<interval>,<offset>: the application's OnOpen callback - the last thing Open() does - calls SetHeartbeatIntervalAndOffset:
          the same run, with that setter applied right after the operation in which the node opens (xrun is this fold without it) *)
       let pair k = match String.split_on_char ',' (get k "") with [a; b] -> Some (z_of_string a, z_of_string b) | _ -> None in
       let onopen = pair "onopen" and appsched = pair "appsched" in
       let opsl = List.filter_map (fun x -> x) ops in
       let (r, evs) = if onopen = None && appsched = None then xrun gf_none r0 opsl else
           (* appsched=<period>,<offset>: the application's own tN2kSyncScheduler (Model/Sched.v ssched), set in the OnOpen callback and polled
              after every operation with the calls the harness makes: IsTime, and UpdateNextTime when it fires (EvNote 7) *)
           let (r, _, acc) = List.fold_left (fun (r, app, acc) o ->
               let (r1, ev) = xstep gf_none r o in
               let opened = List.exists (function EvNote c -> int_of_z c = 1 | _ -> false) ev in
               let r2 = match onopen with Some (iv, off) when opened -> fst (xstep gf_none r1 (XBase (RSetHeartbeat (iv, off, zi (-1))))) | _ -> r1 in
               let (r3, app) = match appsched with
                 | Some (p, o) when opened ->
                   if int_of_z p = 0 then (r2, Some { ss_next = ss_disabled; ss_offset = o; ss_period = p })
                   else let (r', t) = millis64 r2 in (r', Some (ss_update_next t r'.r_sync { ss_next = ss_disabled; ss_offset = o; ss_period = p }))
                 | _ -> (r2, app) in
               let (r4, app, ev) = match app with
                 | Some a -> let (r', t1) = millis64 r3 in
                   if ss_is_time t1 a then let (r'', t2) = millis64 r' in (r'', Some (ss_update_next t2 r''.r_sync a), ev @ [EvNote (zi 7)]) else (r', app, ev)
                 | None -> (r3, app, ev) in
               (r4, app, ev :: acc)) (r0, (match appsched with Some (p, o) -> Some { ss_next = ss_disabled; ss_offset = o; ss_period = p } | None -> None), []) opsl in
           (r, List.rev acc) in
       if r.r_oob then print_string "oob" else begin
       let rec pr first ops ne evs = match ops, ne with
         | [], _ -> ()
         | o :: ro, b :: rb ->
           if not first then print_string "; ";
           (match o, evs with
            | Some _, e :: re -> List.iter (fun x -> print_string (ev_s x)) e; pr false ro rb re
            | Some _, [] -> pr false ro rb []
            | None, _ -> if b then print_string "badop "; pr false ro rb evs)
         | _ :: _, [] -> () in
       pr true ops nonempty evs;
       let n = r.rn in
       if int_of_z n.n_open = 0 || int_of_z n.n_q.q_max = 0 then Printf.printf "| open=%s q=-" (string_of_z n.n_open)
       else Printf.printf "| open=%s q=%s/%s/%s" (string_of_z n.n_open) (string_of_z n.n_q.q_max) (string_of_z n.n_q.q_rd) (string_of_z n.n_q.q_wr);
       Printf.printf " ac=%s dic=%s idc=%s" (if n.n_addr_changed then "1" else "0") (if r.r_devinfo_changed then "1" else "0") (if r.r_cfg.c_inst_changed then "1" else "0");
       List.iteri (fun i d ->
           let x = List.nth r.rx_dev i in
           Printf.printf " dev%d{src=%s end=%s name=%s claim=%s tp=%s dt=%s pc=%s pp=%s pf=%s hb=%s/%s/%s/%s cells=%s}" i (string_of_z d.d_src) (string_of_z d.d_claim_end) (hex_of_z 1 d.d_name)
             (sched_s w64 d.d_claim_timer)
             (match d.d_tp_msg with Some m -> string_of_z m.m_pgn | None -> "0") (string_of_z d.d_next_dt_seq)
             (sched_s w64 x.x_pend_claim) (sched_s w64 x.x_pend_prod) (sched_s w64 x.x_pend_conf)
             (if x.x_hb.ss_next = ss_disabled then "off" else string_of_z x.x_hb.ss_next) (string_of_z x.x_hb.ss_period) (string_of_z x.x_hb.ss_offset) (string_of_z x.x_hb_seq)
             (match d.d_cells with None -> "none" | Some c -> String.concat "," (List.map (fun x -> hex_of_z 1 x) c))) n.n_devs;
       print_string " slots[";
       if int_of_z n.n_open <> 0 then
         List.iteri (fun i s -> if not s.s_free then
                        Printf.printf "%d:%s:%s:%s:%d:%s:%d:%s:%s:%s:%s " i (string_of_z s.s_pgn) (string_of_z s.s_src) (string_of_z s.s_dst) (if s.s_tp then 1 else 0) (string_of_z s.s_len)
                          (List.length s.s_data) (string_of_z s.s_last) (string_of_z s.s_time) (string_of_z s.s_tpmax) (string_of_z s.s_tpreq)) r.r_slots;
       print_string "]" end
     | _ -> print_string "badcase");
    print_newline ()
  done with End_of_file -> ()
