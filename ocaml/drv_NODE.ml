(* driver for the extracted node model: same line protocol as harness/h_node.cpp *)
let zi = z_of_int
let plist v = List.map z_of_string (List.filter (fun x -> x <> "") (String.split_on_char ',' v))
let ev_s = function
  | EvTx (id, len, data, ok) -> Printf.sprintf "tx:%s:%s:%s:%s " (let h = hex_of_z 1 id in h) (string_of_z len) (hex data) (if ok then "1" else "0")
  | EvResult b -> if b then "res:1 " else "res:0 "
  | EvDeliver m -> Printf.sprintf "dlv:%s:%s:%s:%s:%d:%s " (string_of_z m.m_pri) (string_of_z m.m_pgn) (string_of_z m.m_src) (string_of_z m.m_dst) (List.length m.m_data) (hex m.m_data)
  | EvNote c -> (match int_of_z c with 1 -> "note:open " | k -> Printf.sprintf "note:%d " k)
let sched_s w64 s = if sched_is_enabled w64 s then string_of_z s else "off"
let () =
  let w64 = (Array.length Sys.argv < 2) || Sys.argv.(1) <> "w32" in
  try while true do
    let line = input_line stdin in
    (match String.index_opt line '|' with
     | Some bar when String.length line > 4 && String.sub line 0 4 = "NODE" ->
       let cfg = split (String.sub line 4 (bar - 4)) in
       let kv = List.filter_map (fun c -> match String.index_opt c '=' with
           | Some e -> Some (String.sub c 0 e, String.sub c (e+1) (String.length c - e - 1)) | None -> None) cfg in
       let get k d = try List.assoc k kv with Not_found -> d in
       let geto k = try Some (plist (List.assoc k kv)) with Not_found -> None in
       let mode = int_of_string (get "mode" "1") and ndev = int_of_string (get "ndev" "1") and src = int_of_string (get "src" "22") in
       let q = int_of_string (get "q" "40") in
       let t0 = z_of_string (get "t0" "5000") in
       let pc = { sf0 = geto "sf0"; sf1 = geto "sf1"; fp0 = geto "fp0"; fp1 = geto "fp1" } in
       (* SetDeviceInformation(1+i, 130, 25, 2046, 4, i): NAME as built by tDeviceInformation; computed here like the C++ does *)
       let name i =
         let unique = 1 + i and manuf = 2046 and devinst = 0 and func = 130 and cls = 25 and sysinst = 0 and industry = 4 in
         let lo = (unique land 0x1fffff) lor ((manuf land 0x7ff) lsl 21) in
         let hi = (devinst land 0xff) lor ((func land 0xff) lsl 8) lor (((cls land 0x7f) lsl 1) lsl 16) lor ((0x80 lor ((industry land 7) lsl 4) lor (sysinst land 0xf)) lsl 24) in
         Z.add (zi lo) (Z.mul (zi hi) (z_of_string "4294967296")) in
       let devs = List.init ndev (fun i -> mk_dev w64 (zi ((src + i) land 255)) (name i) (match geto (Printf.sprintf "tx%d" i) with Some l -> l | None -> [])) in
       let n0 = opened_node w64 (zi mode) t0 (zi (q * ndev)) pc devs in
       let opstrs = String.split_on_char ';' (String.sub line (bar+1) (String.length line - bar - 1)) in
       let ops = List.map (fun s -> match split s with
           | ["T"; dt] -> Some (OTick (z_of_string dt))
           | ["A"] -> Some (OAccept [])
           | ["A"; p] -> Some (OAccept (List.init (String.length p) (fun i -> p.[i] = '1')))
           | ["S"; idev; pri; pgn; s; d; tp; data] ->
             Some (OSend (z_of_string idev, { m_pri = z_of_string pri; m_pgn = z_of_string pgn; m_src = z_of_string s; m_dst = z_of_string d; m_data = unhex data; m_tp = (tp = "1") }))
           | ["F"] -> Some OFlush
           | ["C"; i] -> Some (OStartClaim (z_of_string i))
           | [] -> None
           | _ -> None) opstrs in
       let nonempty = List.map (fun s -> split s <> []) opstrs in
       let (n, evs) = run n0 (List.filter_map (fun x -> x) ops) in
       (* print, keeping the positions of empty / unknown ops *)
       let rec pr first ops ne evs = match ops, ne with
         | [], _ -> ()
         | o :: ro, b :: rb ->
           if not first then print_string "; ";
           (match o, evs with
            | Some _, e :: re -> List.iter (fun x -> print_string (ev_s x)) e; pr false ro rb re
            | Some _, [] -> pr false ro rb []
            | None, _ -> if b then print_string "badop "; pr false ro rb evs)
         | _ :: _, [] -> () in
       pr true ops nonempty evs;
       Printf.printf "| open=%s q=%s/%s/%s ac=%s" (string_of_z n.n_open) (string_of_z n.n_q.q_max) (string_of_z n.n_q.q_rd) (string_of_z n.n_q.q_wr) (if n.n_addr_changed then "1" else "0");
       List.iteri (fun i d ->
           Printf.printf " dev%d{src=%s end=%s claim=%s tp=%s dt=%s cells=%s}" i (string_of_z d.d_src) (string_of_z d.d_claim_end) (sched_s w64 d.d_claim_timer)
             (match d.d_tp_msg with Some m -> string_of_z m.m_pgn | None -> "0") (string_of_z d.d_next_dt_seq)
             (match d.d_cells with None -> "none" | Some c -> String.concat "," (List.map (fun x -> hex_of_z 1 x) c))) n.n_devs
     | _ -> print_string "badcase");
    print_newline ()
  done with End_of_file -> ()
