(* driver for the extracted handler-list model (C14); same line protocol as harness/h_handlers.cpp.  Also runs the abstract
   machine of Spec/HandlerSpec.v along the same operations and flags a multiplicity mismatch (SPEC-MISMATCH). *)
exception Bad
let npool = 6
let digits s = s <> "" && String.length s <= 20 && (let ok = ref true in String.iter (fun c -> if c < '0' || c > '9' then ok := false) s; !ok)
let p_id s = if not (digits s) || String.length s > 3 then raise Bad else let n = int_of_string s in if n >= npool then raise Bad else nat_of_int n
let p_bus s = match s with "1" -> B1 | "2" -> B2 | _ -> raise Bad
let p_num s = if digits s then z_of_string s else raise Bad
let parse tok =
  if String.length tok < 2 then raise Bad;
  let f = String.split_on_char ':' (String.sub tok 1 (String.length tok - 1)) in
  match tok.[0], f with
  | 'c', [i; p] -> HCreate (p_id i, p_num p, None)
  | 'c', [i; p; b] -> let i = p_id i in let p = p_num p in HCreate (i, p, Some (p_bus b))
  | 'a', [i; b] -> let i = p_id i in HAttach (i, p_bus b)
  | 'd', [i] -> HDetach (p_id i)
  | 'd', [i; b] -> let i = p_id i in ignore (p_bus b); HDetach i
  | 'x', [i] -> HDestroy (p_id i)
  | 'r', [b; m] -> let b = p_bus b in HRun (b, p_num m)
  | 'k', [b; v] -> let b = p_bus b in if digits v then HSetCb (b, v <> "0") else raise Bad
  | _ -> raise Bad
let call_s = function CB -> "cb" | CH i -> string_of_int (int_of_nat i)
let rec cnt c = function [] -> 0 | x :: r -> (if x = c then 1 else 0) + cnt c r
let list_s l = if l = [] then "-" else String.concat "," (List.map (fun h -> string_of_int (int_of_nat h.hid) ^ "@" ^ string_of_z h.hpgn) l)
let () =
  try while true do
    let line = input_line stdin in
    (match split line with
     | "H" :: toks ->
       (match (try Some (List.map parse toks) with _ -> None) with
        | None -> print_string "badcase"
        | Some ops ->
          let (st, outs) = hrun hinit ops in
          (* abstract machine alongside *)
          let a = ref ainit and bad = ref false in
          List.iter2 (fun o out ->
              (match o with
               | HRun (b, m) ->
                 List.iter (fun c -> if cnt c out <> int_of_nat (expected !a b m c) then bad := true)
                   (CB :: List.init npool (fun i -> CH (nat_of_int i)));
                 if List.exists (fun c -> match c with CB -> false | CH i -> int_of_nat i >= npool) out then bad := true
               | _ -> if out <> [] then bad := true);
              a := astep !a o) ops outs;
          if !bad then print_string "SPEC-MISMATCH ";
          List.iter2 (fun o out -> match o with
              | HRun _ -> print_string ((if out = [] then "-" else String.concat "," (List.map call_s out)) ^ " ")
              | _ -> ()) ops outs;
          print_string ("| " ^ list_s (st.hls B1) ^ " " ^ list_s (st.hls B2) ^ " |");
          for i = 0 to npool - 1 do
            let o = st.htab (nat_of_int i) in
            if o.oalive then print_string (" " ^ string_of_z o.opgn ^ ":" ^ (match o.obus with None -> "0" | Some B1 -> "1" | Some B2 -> "2"))
            else print_string " x"
          done)
     | _ -> print_string "badcase");
    print_newline ()
  done with End_of_file -> ()
