(* conversions between OCaml int / strings and the extracted Coq numbers (Z, positive, N, nat stay inductive types) *)
let rec pos_of_int n = if n = 1 then XH else if n land 1 = 0 then XO (pos_of_int (n lsr 1)) else XI (pos_of_int (n lsr 1))
let z_of_int n = if n = 0 then Z0 else if n > 0 then Zpos (pos_of_int n) else Zneg (pos_of_int (-n))
let rec int_of_pos = function XH -> 1 | XO p -> 2 * int_of_pos p | XI p -> 2 * int_of_pos p + 1
let int_of_z = function Z0 -> 0 | Zpos p -> int_of_pos p | Zneg p -> - int_of_pos p
let rec nat_of_int n = if n <= 0 then O else S (nat_of_int (n-1))
let rec int_of_nat = function O -> 0 | S k -> 1 + int_of_nat k
let unhex s = if s = "-" then [] else List.init (String.length s / 2) (fun i -> z_of_int (int_of_string ("0x" ^ String.sub s (2*i) 2)))
let hex l = if l = [] then "-" else String.concat "" (List.map (fun b -> Printf.sprintf "%02x" (int_of_z b land 255)) l)
let split s = List.filter (fun t -> t <> "") (String.split_on_char ' ' s)
(* big numbers (up to 2^64 and beyond) from decimal / 0x strings without overflow: go through positive digits *)
let z_of_string s =
  let neg = String.length s > 0 && s.[0] = '-' in
  let s = if neg then String.sub s 1 (String.length s - 1) else s in
  let base, s = if String.length s > 2 && s.[0]='0' && (s.[1]='x' || s.[1]='X') then 16, String.sub s 2 (String.length s - 2) else 10, s in
  let acc = ref Z0 in
  String.iter (fun c ->
    let d = if c >= '0' && c <= '9' then Char.code c - 48 else if c >= 'a' && c <= 'f' then Char.code c - 87 else Char.code c - 55 in
    acc := Z.add (Z.mul !acc (z_of_int base)) (z_of_int d)) s;
  if neg then Z.opp !acc else !acc
let rec string_of_z z =
  match z with
  | Z0 -> "0"
  | Zneg p -> "-" ^ string_of_z (Zpos p)
  | Zpos _ ->
    let ten = z_of_int 10 in
    let rec go z acc = match z with Z0 -> acc | _ ->
      let q = Z.div z ten and r = Z.modulo z ten in go q (string_of_int (int_of_z r) ^ acc) in
    go z ""
let bool_s b = if b then "1" else "0"
let hex_of_z width z =
  let sixteen = z_of_int 16 in
  let rec go z acc = match z with Z0 -> acc | _ -> go (Z.div z sixteen) (Printf.sprintf "%x" (int_of_z (Z.modulo z sixteen)) ^ acc) in
  let s = go z "" in
  if String.length s >= width then s else String.make (width - String.length s) '0' ^ s
let zhex s = z_of_string ("0x" ^ s)
