(* driver for the extracted numeric-field model: same line protocol as harness/h_num.cpp *)
let pad223 d = d @ List.init (max 0 (223 - List.length d)) (fun _ -> z_of_int 0x5A)
let dbits z = if is_nan (decode b64 z) then "nan" else hex_of_z 16 z
let fbits z = if is_nan (decode b32 z) then "nan" else hex_of_z 8 z
let kind = function
  | "b" -> (1, false) | "i2" -> (2, true) | "u2" -> (2, false) | "i3" -> (3, true) | "u3" -> (3, false)
  | "u4" -> (4, false) | "u8" -> (8, false) | _ -> failwith "kind"
let () =
  try while true do
    let line = input_line stdin in
    (match split line with
     | ["SETD"; n; s; v; p] -> print_string (hex (add_double (nat_of_int (int_of_string n)) (s = "s") (zhex v) (zhex p)))
     | ["SETB"; n; s; v; p] -> print_string (hex (set_buf_double (nat_of_int (int_of_string n)) (s = "s") (zhex v) (zhex p)))
     | ["RTU"; n; s; v; p; u] ->
       let n' = nat_of_int (int_of_string n) in
       let bytes = add_double_u n' (s = "s") (zhex v) (zhex p) (zhex u) in
       let (r, _) = get_double n' (s = "s") (zhex p) (zhex u) Z0 (z_of_int (int_of_string n)) (pad223 bytes) in
       Printf.printf "%s %s" (hex bytes) (dbits r)
     | ["RTD"; n; s; v; p] ->
       let n' = nat_of_int (int_of_string n) in
       let bytes = add_double n' (s = "s") (zhex v) (zhex p) in
       let (r, _) = get_double n' (s = "s") (zhex p) na_double_bits Z0 (z_of_int (int_of_string n)) (pad223 bytes) in
       Printf.printf "%s %s" (hex bytes) (dbits r)
     | ["GETD"; n; s; p; def; idx; dl; d] ->
       let (r, i) = get_double (nat_of_int (int_of_string n)) (s = "s") (zhex p) (zhex def) (z_of_string idx) (z_of_string dl) (pad223 (unhex d)) in
       Printf.printf "%s %s" (dbits r) (string_of_z i)
     | ["SETF"; v] -> print_string (hex (add_float (zhex v)))
     | ["GETF"; def; idx; dl; d] ->
       let (r, i) = get_float (zhex def) (z_of_string idx) (z_of_string dl) (pad223 (unhex d)) in
       Printf.printf "%s %s" (fbits r) (string_of_z i)
     | ["SETI"; k; v] -> let (n, _) = kind k in print_string (hex (add_int (nat_of_int n) (z_of_string v)))
     | ["GETI"; k; def; idx; dl; d] ->
       let (n, s) = kind k in
       let def' = if k = "b" then z_of_int 255 else z_of_string def in
       let (r, i) = get_int (nat_of_int n) s def' (z_of_string idx) (z_of_string dl) (pad223 (unhex d)) in
       Printf.printf "%s %s" (string_of_z r) (string_of_z i)
     | [] -> print_string "skip"
     | _ -> print_string "badcase");
    print_newline ()
  done with End_of_file -> ()
