(* driver for the extracted message model (IR interpreter + generated IR terms): same line protocol as harness/h_msgs.cpp *)
let arg_of tok =
  let body = String.sub tok 1 (String.length tok - 1) in
  match tok.[0] with
  | 'i' -> VI (z_of_string body)
  | 'd' -> VD (zhex body)
  | 't' -> VT (unhex body)
  | 'l' -> VT (if body = "-" then [] else List.map z_of_string (String.split_on_char ',' body))
  | _ -> failwith "arg"
let rec assoc_nat k = function [] -> None | (j, v) :: r -> if int_of_nat j = k then Some v else assoc_nat k r
let name_tbl : (string, int) Hashtbl.t = Hashtbl.create 512
let () = List.iter (fun (k, cs) -> Hashtbl.replace name_tbl (String.init (List.length cs) (fun i -> Char.chr (int_of_z (List.nth cs i)))) (int_of_nat k)) fn_names
let fid s = try Hashtbl.find name_tbl s with Not_found -> -1
let is_untranslated k = List.exists (fun j -> int_of_nat j = k) untranslated_ids
let dstr bits = if is_nan (decode b64 bits) then "dnan" else "d" ^ hex_of_z 16 bits
let pad223 d = d @ List.init (max 0 (223 - List.length d)) (fun _ -> z_of_int 0x5A)
let show_msg m = Printf.sprintf "S %s %s %s %s %s" (string_of_z m.m_pgn) (string_of_z m.m_prio) (string_of_z m.m_dest) (string_of_z m.m_len) (hex m.m_data)
let show_val = function
  | VI z -> "i" ^ string_of_z z
  | VD b -> dstr b
  | VF b -> "f" ^ hex_of_z 8 b
  | VT t -> "t" ^ hex t
let sentinel args m = function
  | OI z -> "i" ^ string_of_z z
  | OIO a -> (match List.nth_opt args (int_of_nat a) with Some v -> show_val v | None -> "i0")
  | OD -> "d40c81c8000000000"
  | OT size ->
    let r = { e_args = args; e_slots = []; e_pgn = m.m_pgn; e_len = m.m_len } in
    if int_of_z (ieval r size) >= 2 then "t7e" else "t-"
let show_parse fid args m =
  match assoc_nat fid all_parsers, assoc_nat fid all_outsigs with
  | Some p, Some sg ->
    let r = exec_parse p args m in
    if r.r_ub then None
    else if r.r_unsup then Some "unsupported"
    else begin
      let b = Buffer.create 128 in
      Buffer.add_string b (if r.r_ret then "P 1" else "P 0");
      List.iteri (fun j s ->
        Buffer.add_char b ' ';
        match assoc_nat j r.r_outs with
        | Some v -> Buffer.add_string b (show_val v)
        | None -> Buffer.add_string b (sentinel args m s)) sg;
      Some (Buffer.contents b)
    end
  | _ -> Some "nofn"
let rec take n l = if n <= 0 then [] else match l with [] -> [] | x :: r -> x :: take (n-1) r
let rec drop n l = if n <= 0 then l else match l with [] -> [] | _ :: r -> drop (n-1) r
(* text arguments with a byte >= 0x80: outside the IR's text model *)
let nonascii_text line =
  List.exists (fun a -> String.length a > 1 && a.[0] = 't' && a <> "t-" &&
                 (let n = (String.length a - 1) / 2 in
                  let rec go i = i < n && ((match a.[1 + 2*i] with '8'|'9'|'a'..'f' -> true | _ -> false) || go (i+1)) in go 0)) (split line)
let process line =
  if nonascii_text line then "nonascii" else
  match split line with
  | "S" :: fn :: args ->
    let k = fid fn in
    if is_untranslated k then "untranslated" else
    (match assoc_nat k all_setters with
     | Some s -> (match exec_set s (List.map arg_of args) with
                  | Some m -> Printf.sprintf "k%s %s" fn (show_msg m)
                  | None -> "oob")
     | None -> "nofn")
  | "P" :: fn :: pgn :: dl :: data :: args ->
    let k = fid fn in
    if is_untranslated k then "untranslated" else
    let m = { m_pgn = z_of_string pgn; m_prio = z_of_int 6; m_dest = z_of_int 255; m_len = z_of_string dl; m_data = pad223 (unhex data) } in
    (match show_parse k (List.map arg_of args) m with
     | Some s -> Printf.sprintf "k%s %s" fn s
     | None -> "oob")
  | "R" :: sf :: pf :: n :: rest ->
    let ks = fid sf and kp = fid pf and n = int_of_string n in
    if is_untranslated ks || is_untranslated kp then "untranslated" else
    let sa = List.map arg_of (take n rest) and pa = List.map arg_of (drop n rest) in
    (match assoc_nat ks all_setters with
     | Some s -> (match exec_set s sa with
                  | Some m ->
                    let m' = { m with m_data = pad223 m.m_data } in
                    (match show_parse kp pa m' with
                     | Some r -> Printf.sprintf "k%s,%s %s | %s" sf pf (show_msg m) r
                     | None -> "oob")
                  | None -> "oob")
     | None -> "nofn")
  | "A" :: sf :: af :: hp :: rp :: nh :: rest ->
    (* repeated records: setter (IR), n appends (hand-written model of the append function of that PGN), header / record parsers (IR) *)
    let ks = fid sf in
    let nh = int_of_string nh in
    let ha = List.map arg_of (take nh rest) in
    (match drop nh rest with
     | k :: n :: rest2 ->
       let k = int_of_string k and n = int_of_string n in
       (match assoc_nat ks all_setters with
        | Some s ->
          (match exec_set s ha with
           | Some m0 ->
             let steps = Buffer.create 64 in
             let m = ref m0 in
             for i = 0 to n - 1 do
               let a = List.map arg_of (take k (drop (i * k) rest2)) in
               let (ok, m') = append_model !m.m_pgn !m a in
               if ok then (Buffer.add_string steps "1+"; m := m')
               else Buffer.add_string steps (if m' = !m then "0=" else "0!")
             done;
             if n = 0 then Buffer.add_string steps "-";
             let nidx = int_of_string (List.nth rest2 (n * k)) in
             let mp = { !m with m_data = pad223 !m.m_data } in
             let b = Buffer.create 256 in
             Buffer.add_string b (Printf.sprintf "k%s,%s A %s %s" sf af (Buffer.contents steps) (show_msg !m));
             let bad = ref false in
             if hp <> "-" then
               (match show_parse (fid hp) [] mp with Some r -> Buffer.add_string b (" | H " ^ r) | None -> bad := true);
             if rp <> "-" then
               for i = 0 to nidx - 1 do
                 match show_parse (fid rp) [VI (z_of_int i)] mp with
                 | Some r -> Buffer.add_string b (Printf.sprintf " | I%d %s" i r)
                 | None -> bad := true
               done;
             if !bad then "oob" else Buffer.contents b
           | None -> "oob")
        | None -> "nofn")
     | _ -> "badcase")
  | ["B"; bank; st; idx] ->
    (* the bank status helpers of PGN 127501: set item idx to st, then read every item 0..29 of the result *)
    let b' = bs_set (zhex bank) (z_of_string st) (z_of_string idx) in
    "kB " ^ hex_of_z 16 b' ^ " " ^ String.concat "" (List.init 30 (fun i -> string_of_z (bs_get b' (z_of_int i))))
  | [] -> "skip"
  | _ -> "badcase"

let read_lines ic =
  let acc = ref [] in
  (try while true do acc := input_line ic :: !acc done with End_of_file -> ());
  Array.of_list (List.rev !acc)

(* The extracted arithmetic works on inductive binary numbers and is slow; large case files are split over worker copies of this
   program (started through the shell, no library beyond Stdlib), and the result lines are put back in the original order. *)
let workers = 14
let () =
  if Array.length Sys.argv > 1 && Sys.argv.(1) = "--worker" then
    (try while true do print_string (process (input_line stdin)); print_newline () done with End_of_file -> ())
  else begin
    let lines = read_lines stdin in
    let n = Array.length lines in
    if n < 600 then Array.iter (fun l -> print_string (process l); print_newline ()) lines
    else begin
      let base = Filename.temp_file "drvC05" "" in
      let k = workers in
      let ocs = Array.init k (fun i -> open_out (Printf.sprintf "%s.in%d" base i)) in
      Array.iteri (fun i l -> output_string ocs.(i mod k) l; output_char ocs.(i mod k) '\n') lines;
      Array.iter close_out ocs;
      let cmd = String.concat " & " (List.init k (fun i ->
        Printf.sprintf "%s --worker < %s > %s" (Filename.quote Sys.executable_name)
          (Filename.quote (Printf.sprintf "%s.in%d" base i)) (Filename.quote (Printf.sprintf "%s.out%d" base i)))) ^ " ; wait" in
      let _ = Sys.command cmd in
      let outs = Array.init k (fun i -> let ic = open_in (Printf.sprintf "%s.out%d" base i) in let a = read_lines ic in close_in ic; a) in
      for i = 0 to n - 1 do
        let a = outs.(i mod k) in
        if i / k < Array.length a then print_string a.(i / k) else print_string "worker-failed";
        print_newline ()
      done;
      for i = 0 to k - 1 do (try Sys.remove (Printf.sprintf "%s.in%d" base i) with _ -> ()); (try Sys.remove (Printf.sprintf "%s.out%d" base i) with _ -> ()) done;
      (try Sys.remove base with _ -> ())
    end
  end
