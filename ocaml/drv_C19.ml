(* driver for the extracted Seasmart model: same line protocol as harness/h_smrt.cpp *)
let () =
  try while true do
    let line = input_line stdin in
    (match split line with
     | "IMP" :: rest ->
       let bytes = unhex (match rest with h :: _ -> h | [] -> "-") in
       (match import bytes with
        | OOB -> print_string "oob"
        | Fuel -> print_string "fuel"
        | Ok None -> print_string "false"
        | Ok (Some m) -> Printf.printf "true %s %s %s %s" (string_of_z m.pgn) (string_of_z m.ts) (string_of_z m.src) (hex m.data))
     | ["EXP"; p; t; s; size; d] ->
       let m = { pgn = z_of_string p; ts = z_of_string t; src = z_of_string s; data = unhex d } in
       (match export m (z_of_string size) with
        | OOB -> print_string "oob" | Fuel -> print_string "fuel"
        | Ok (None, r) -> Printf.printf "ret %s untouched" (string_of_z r)
        | Ok (Some out, r) -> Printf.printf "ret %s %s" (string_of_z r) (hex out))
     | ["RT"; p; t; s; d] ->
       let m = { pgn = z_of_string p; ts = z_of_string t; src = z_of_string s; data = unhex d } in
       let size = z_of_int (30 + 2 * List.length m.data) in
       (match export m size with
        | Ok (Some out, _) ->
          (* the string the importer sees: bytes before the NUL *)
          let str = List.filter (fun b -> int_of_z b <> 0) out in
          (match import str with
           | Ok (Some m2) -> Printf.printf "rt true %s %s %s %s" (string_of_z m2.pgn) (string_of_z m2.ts) (string_of_z m2.src) (hex m2.data)
           | Ok None -> print_string "rt false" | OOB -> print_string "oob" | Fuel -> print_string "fuel")
        | Ok (None, _) -> print_string "rt false" | OOB -> print_string "oob" | Fuel -> print_string "fuel")
     | [] -> print_string "skip"
     | _ -> print_string "badcase");
    print_newline ()
  done with End_of_file -> ()
