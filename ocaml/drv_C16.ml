(* driver for the extracted text-field model: same line protocol as harness/h_text.cpp *)
let zi = z_of_int
let rep n v = List.init n (fun _ -> zi v)
let preset fill pat = { mdata = rep 223 pat; mlen = zi fill }
let load datalen h =
  let d = unhex h in
  let n = List.length d in
  let d = if n >= 223 then List.filteri (fun i _ -> i < 223) d else d @ rep (223 - n) 0xCD in
  { mdata = d; mlen = zi datalen }
let ints l = List.map int_of_z l
let sub l a b = List.filteri (fun i _ -> i >= a && i < b) l

type addr = Good of string * msg | Bad of string
(* runs the add on the two presets; Bad text | Good (text, message of the 0x55 run) *)
let add_report fill (f : msg -> msg res) =
  match f (preset fill 0x55), f (preset fill 0xAA) with
  | Ok a, Ok b ->
    let dl = int_of_z a.mlen in
    if dl < fill || dl > 223 || int_of_z b.mlen <> dl then Bad (Printf.sprintf "dl %d bad" dl) else begin
      let da = ints a.mdata and db = Array.of_list (ints b.mdata) in
      let stale = ref 0 and dirty = ref 0 in
      List.iteri (fun i x -> let y = db.(i) in
        if i >= fill && i < dl then (if x <> y then incr stale) else if x <> 0x55 then incr dirty) da;
      Good (Printf.sprintf "dl %d stale %d dirty %d %s" dl !stale !dirty (hex (sub a.mdata fill dl)), a)
    end
  | Fuel, _ | _, Fuel -> Bad "fuel"
  | _ -> Bad "oob"

let get_line r = match r with
  | OOB -> "oob" | Fuel -> "fuel"
  | Ok ((ret, idx), buf) -> Printf.sprintf "ret %s idx %s buf %s" (bool_s ret) (string_of_z idx) (hex buf)
let getv_line r = match r with
  | OOB -> "oob" | Fuel -> "fuel"
  | Ok (((ret, sz), idx), buf) -> Printf.sprintf "ret %s idx %s sz %s buf %s" (bool_s ret) (string_of_z idx) (string_of_z sz) (hex buf)
let dest size = rep size 0xA5
let getv m size nul idx =
  if nul = "-" then get_var_str3 m (zi size) (dest size) (zi idx) else get_var_str m (zi size) (dest size) (z_of_string nul) (zi idx)
(* a result that is oob/fuel in any part is oob/fuel as a whole (the harness dies on the first abort) *)
let join parts = if List.mem "fuel" parts then "fuel" else if List.mem "oob" parts then "oob" else String.concat " | " parts
let i = int_of_string

let () =
  try while true do
    let line = input_line stdin in
    let out = match split line with
     | ["ADDSTR"; fill; len; fc; s] ->
       (match add_report (i fill) (fun m -> add_str m (unhex s) (zi (i len)) (zi (i fc))) with Good (t, _) -> t | Bad e -> e)
     | ["ADDAIS"; fill; len; s] ->
       (match add_report (i fill) (fun m -> add_ais_str m (unhex s) (zi (i len))) with Good (t, _) -> t | Bad e -> e)
     | ["ADDVAR"; fill; maxlen; sup; lm; s] ->
       (match add_report (i fill) (fun m -> add_var_str m (unhex s) (zi (i maxlen)) (i sup <> 0) (i lm <> 0)) with Good (t, _) -> t | Bad e -> e)
     | ["ADDVAR2"; fill; s] ->
       (match add_report (i fill) (fun m -> add_var_str2 m (unhex s)) with Good (t, _) -> t | Bad e -> e)
     | ["GETSTR"; size; len; nul; idx; dl; d] ->
       get_line (get_str_sized (load (i dl) d) (zi (i size)) (dest (i size)) (zi (i len)) (zi (i nul)) (zi (i idx)))
     | ["GETSTRU"; size; len; idx; dl; d] ->
       get_line (get_str_unsized (load (i dl) d) (dest (i size)) (zi (i len)) (zi (i idx)))
     | ["GETVAR"; size; nul; idx; dl; d] ->
       getv_line (getv (load (i dl) d) (i size) nul (i idx))
     | ["RTSTR"; fill; len; fc; size; s] ->
       (match add_report (i fill) (fun m -> add_str m (unhex s) (zi (i len)) (zi (i fc))) with
        | Good (t, a) -> join [t; get_line (get_str_sized a (zi (i size)) (dest (i size)) (zi (i len)) (zi (i fc)) (zi (i fill)))]
        | Bad e -> e)
     | ["RTAIS"; fill; len; size; s] ->
       (match add_report (i fill) (fun m -> add_ais_str m (unhex s) (zi (i len))) with
        | Good (t, a) ->
          let flen = int_of_z a.mlen - i fill in
          join [t; get_line (get_str_sized a (zi (i size)) (dest (i size)) (zi flen) (zi 64) (zi (i fill)));
                get_line (get_str_unsized a (dest (flen + 1)) (zi flen) (zi (i fill)))]
        | Bad e -> e)
     | ["RTVAR"; fill; maxlen; sup; lm; size; nul; s] ->
       (match add_report (i fill) (fun m -> add_var_str m (unhex s) (zi (i maxlen)) (i sup <> 0) (i lm <> 0)) with
        | Good (t, a) -> join [t; getv_line (getv a (i size) nul (i fill))]
        | Bad e -> e)
     | [] -> "skip"
     | _ -> "badcase" in
    print_string out; print_newline ()
  done with End_of_file -> ()
