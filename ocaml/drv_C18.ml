(* driver for the extracted device list model: same line protocol as harness/h_devlist.cpp
     DL <t0> | M <dt> <pgn> <src> <dst> <datahex> [<sendok>] ; ... ; Q
     DLS <t0>,<t0>,.. | ...     the same history once per clock origin, results joined by " || " *)
exception Stop of string
let two32 = z_of_string "4294967296"
let zs = string_of_z
let cstr = function None -> "~" | Some l -> hex l
let plist = function None -> "~" | Some [] -> "-" | Some l -> String.concat "," (List.map zs l)
let unres = function Ok a -> a | OOB -> raise (Stop "oob") | Fuel -> raise (Stop "fuel")
let hexz z = let s = hex_of_z 1 z in s
let dump st names =
  let b = Buffer.create 256 in
  Buffer.add_string b (Printf.sprintf "max=%s pend=%s cnt=%s" (zs st.maxdev) (bool_s st.pending) (zs (unres (count st))));
  for s = 0 to 253 do
    match unres (by_source st (z_of_int s)) with
    | None -> ()
    | Some (e, v) ->
      let p = v.v_pi in
      Buffer.add_string b (Printf.sprintf " s%d{n=%s src=%s ct=%s pi=%s:%s:%s:%s:%s:%s:%s:%s:%s ci=%s:%s:%s:%s tx=%s rx=%s rq=%s/%s/%s/%s/%s/%s/%s lm=%s}"
        s (hexz v.v_name) (zs v.v_src) (zs e.e_ctime)
        (bool_s e.e_pil) (zs p.p_ver) (zs p.p_code) (hex p.p_mid) (hex p.p_sw) (hex p.p_mver) (hex p.p_ser) (zs p.p_cert) (zs p.p_load)
        (bool_s e.e_cil) (cstr v.v_man) (cstr v.v_d1) (cstr v.v_d2) (plist v.v_tx) (plist v.v_rx)
        (zs e.e_nname) (zs e.e_pireq) (zs e.e_npi) (zs e.e_cireq) (zs e.e_nci) (zs e.e_pgreq) (zs e.e_npg) (zs e.e_lmt))
  done;
  Buffer.add_string b " byname";
  List.iter (fun n ->
    Buffer.add_string b (match unres (by_name st n) with
      | Some s -> Printf.sprintf " %s=%s" (hexz n) (zs s)
      | None -> Printf.sprintf " %s=-" (hexz n))) names;
  Buffer.contents b
let trunc223 l = List.filteri (fun i _ -> i < 223) l
let () =
  try while true do
    let line = input_line stdin in
    (try
      (match String.index_opt line '|' with
       | None -> if split line = [] then print_string "skip" else print_string "badcase"
       | Some bar ->
         let head = split (String.sub line 0 bar) in
         let rest = String.sub line (bar + 1) (String.length line - bar - 1) in
         (match head with
          | [("DL" | "DLS") as kind; t0s] when (kind = "DLS" || not (String.contains t0s ',')) ->
            let ops = List.filter (fun o -> o <> []) (List.map split (String.split_on_char ';' rest)) in
            let parsed = List.map (fun o -> match o with
                | "M" :: dt :: pgn :: src :: _dst :: data :: tl ->
                  let ok = (match tl with "0" :: _ -> false | _ -> true) in
                  `M (z_of_string dt, { b_pgn = z_of_string pgn; b_src = Z.modulo (z_of_string src) (z_of_int 256); b_data = trunc223 (unhex data) }, ok)
                | "Q" :: _ -> `Q
                | _ -> raise (Stop "badcase")) ops in
            let parsed = (match List.rev parsed with `Q :: _ -> parsed | _ -> parsed @ [`Q]) in
            let names = List.fold_left (fun acc o -> match o with
                | `M (_, m, _) when int_of_z m.b_pgn = 60928 -> let n = claim_name m in if List.mem n acc then acc else acc @ [n]
                | _ -> acc) [Z0] parsed in
            let one t0 =
            let now = ref (Z.modulo (z_of_string t0) two32) in
            let st = ref init_state in
            let outs = List.map (fun o -> match o with
                | `M (dt, m, ok) ->
                  now := Z.modulo (Z.add !now dt) two32;
                  let (st1, rq) = unres (handle_msg !now ok m !st) in
                  let (st2, u) = read_reset st1 in
                  st := st2;
                  Printf.sprintf "u=%s req=%s" (bool_s u)
                    (if rq = [] then "-" else String.concat "," (List.map (fun (d, p) -> Printf.sprintf "%s:%s:%s" (zs !now) (zs d) (zs p)) rq))
                | `Q -> dump !st names) parsed in
            String.concat " ; " outs in
            let t0l = List.filter (fun x -> x <> "") (String.split_on_char ',' t0s) in
            if t0l = [] then raise (Stop "badcase");
            print_string (String.concat " || " (List.map one t0l))
          | _ -> print_string "badcase"))
    with Stop s -> print_string s);
    print_newline ()
  done with End_of_file -> ()
